"""C29 - dolt_merge produces the row-level three-way merge.  Spec: spec/RowMerge.tla.  Engine: harness/rowmerge (mode keyed).

TLC (exhaustive) checks on the model, for EVERY (base,left,right) of a 2-key x 2-column x 2-value table (15 625 triples, and
again with NULL in the cell domain) and for every one-sided schema delta (add column at any position with/without default,
drop, reorder, widen) on a 1-key (quick) / 2-key (thorough) table:  MergeSymmetric, ConflictIff, CellWise, NoInvention
(operator KeyedProps).  TLC then emits every triple with the canonical DML of both sides, the expected table after each
statement, and for both merge directions the expected rows and conflicts; simulation adds random DML/DDL histories.
Binding: each case is built as three commits on the real engine, CALL dolt_merge in both directions, rows /
dolt_conflicts_<t> / dolt_conflicts compared with the model; the merge must never fail internally."""
import importlib.util
import os

LEVEL = "model_checking"
_s = importlib.util.spec_from_file_location("_bh", os.path.join(os.path.dirname(os.path.abspath(__file__)), "_bh.py"))
bh = importlib.util.module_from_spec(_s)
_s.loader.exec_module(bh)

PATHS = ["abort"]


def corrupt(bc):
    # flip one cell of the expected merged table (or invent a row when the table is empty)
    m = bc["subs"][0]["case"]["m"][0]
    if m["rows"]:
        r = m["rows"][0]["r"]
        i = 0 if r[0] != -1 else 1
        r[i] = 1 if r[i] != 1 else 2
    else:
        m["rows"].append({"k": 1, "r": [1, 1, -1]})
    return bc


def select_cases(ctx):
    q = ctx.tier == "quick"
    tri = bh.gen_triples(ctx, ctx.q("c29_gen_triples_q.cfg", "c29_gen_triples.cfg"))
    # the {NULL,v1} space is always enumerated completely: quick runs a sample of it plus EVERY triple in which a conflicted key is
    # followed (in key order) by a cell-wise resolved key (state carried from one TryMerge call to the next, e.g. the tuple builder)
    tri0 = bh.gen_triples(ctx, "c29_gen_triples_null.cfg")
    d1 = [c for c in bh.gen_triples(ctx, ctx.q("c29_gen_delta1_q.cfg", "c29_gen_delta1.cfg")) if c["delta"]["kind"] != "none"]
    hist = bh.gen_histories(ctx, "c29_gen_hist.cfg", num=ctx.q(24, 400), depth=7)
    ctx.rng.shuffle(hist)
    ctx.cov["generated"] = {"triples": len(tri), "triples_null": len(tri0), "delta_1key": len(d1), "histories": len(hist)}
    if q:
        seq = [c for c in tri0 if any(m["ops"][0] in ("divergentModifyConflict", "divergentDeleteConflict") and m["ops"][1] == "divergentModifyResolved" for m in c["m"])]
        ctx.cov["conflict_then_resolved_cases"] = len(seq)
        sel = bh.stratified_sample(ctx.rng, tri, 300) + bh.stratified_sample(ctx.rng, tri0, 140) + ctx.rng.sample(seq, min(len(seq), 240))
        # the suspicion of DESIGN section 7 item 6 first: delete vs. modify with a column added / reordered on the modifying side
        flagged = [c for c in d1 if c["alias"] or c["m"][0]["pbc"] or c["m"][1]["pbc"]]
        deltas = bh.stratified_sample(ctx.rng, d1, 70) + ctx.rng.sample(flagged, min(len(flagged), 10))
        hs = hist[:60]
    else:
        if len(tri) != 15625 or len(tri0) != 15625:
            raise bh.vlib.Inconclusive("TLC did not emit the full triple space: %d / %d" % (len(tri), len(tri0)))
        sel = tri + tri0
        deltas = d1
        hs = hist[:2000]
        h3 = bh.gen_histories(ctx, "c29_gen_hist3.cfg", num=60, depth=10, seed=ctx.seed + 77)
        ctx.rng.shuffle(h3)
        hs += h3[:500]
        ctx.cov["exhaustive"] = True
    return sel, deltas, hs


def run(ctx):
    binary = ctx.build_engine("rowmerge")
    if ctx.replay:
        bh.replay(ctx, binary)
        return
    ctx.tlc_check(bh.MODULE, ctx.q("c29_exh_quick.cfg", "c29_exh_full.cfg"))
    if ctx.tier == "quick":
        ctx.tlc_check(bh.MODULE, "c29_exh_sm_q.cfg")
    ctx.tlc_check(bh.MODULE, ctx.q("c29_exh_delta1_q.cfg", "c29_exh_delta1.cfg"))
    if ctx.tier != "quick":
        ctx.tlc_check(bh.MODULE, "c29_exh_null.cfg")
        ctx.tlc_check(bh.MODULE, "c29_exh_delta2.cfg", timeout=7200)
    sel, deltas, hs = select_cases(ctx)
    ctx.cov["rule"] = ("case = (schema delta, base, left, right) emitted by TLC from RowMerge.tla (operator CaseRec): built as three commits, "
                       "every statement of both sides followed by a comparison of the table with the model, CALL dolt_merge in both "
                       "directions, table rows + dolt_conflicts_<t> + dolt_conflicts compared with MergeT; evaluations = compared rows / "
                       "conflict rows / counters; non-trivial = the merge has a conflict, a cell-wise or delete resolution, a convergent "
                       "edit, or a schema delta; distinct = by (delta, base, left, right, statement kinds). "
                       + ("exhaustive: all 15 625 triples of the 2x2x2 table, for cell domains {v1,v2} and {NULL,v1}, plus all 3 750 "
                          "one-sided-delta triples of the 1-key table" if ctx.tier != "quick" else "quick tier: stratified sample of the triple space"))
    ctx.assumptions += ["SQL types are drawn from int, bigint, varchar, text (inline and out-of-band), double, decimal, datetime, varbinary; JSON columns (path-wise JSON merge) are not driven",
                        "schema deltas are one-sided; two-sided schema changes and schema conflicts are not generated",
                        "widen = varchar(20) -> varchar(40) | text (the only widenings dolt's type-compatibility checker accepts for these types)",
                        "delete vs. an edit that only touches a column the base does not have resolves to the delete (spec: DeleteWinsOverNewColumnEdit, as the code and DESIGN C29)"]
    batches = bh.make_batches(ctx, sel, "keyed", PATHS, ctx.q(20, 25), bh.bind_keyed) \
        + bh.make_batches(ctx, deltas + hs, "keyed", PATHS, 1, bh.bind_keyed)
    # multi-chunk tables on the chunk-level merge path (engine mode c30 without the statistics comparison): pure-update triples
    # whose model keys sit on the first / middle / last keys of three consecutive leaf chunks
    sb, nsc = bh.scatter_batches(ctx, [c for c in sel if not any(v == 0 for r in c["base"] for v in r["r"][:2])], ctx.q(32, 300), ctx.q(12, 150), nostats=True)
    batches += sb
    ctx.cov["chunk_edge_cases"] = nsc
    good = next((b for b in bh.make_batches(ctx, [c for c in sel if c["m"][0]["conf"]][:1], "keyed", PATHS, 1, bh.bind_keyed)), None)
    if good:
        bh.selftest(ctx, binary, good, corrupt)
    passed, failures = bh.run_batches(ctx, binary, batches, timeout=ctx.q(3000, 14400))
    ctx.cov["cases_run"] = {"triples": len(sel), "schema_delta": len(deltas), "histories": len(hs), "passed": passed}
    ndiff = sum(1 for c in deltas + hs if c.get("newcoldel"))
    if ndiff:
        ctx.notes.append("%d cases exercise 'row deleted on one side, only a NEW column edited on the other': the model (as the code) resolves to the delete; "
                         "a literal reading of 'one side deleted a row the other modified' would call it a conflict" % ndiff)
