"""C10 - corrupted storage files are reported, never misread.  Spec: spec/StorageFaults.tla.  Engine: inpkg/store/nbs/faults.

TLC enumerates the fault plan  Build(kind, history, chunk order) ; CorruptFile(site, fault kind) ; ReadAll  of the
spec exhaustively (table files, archives, manifest; every logical site; bitflip / byteset / truncate / extend) and
computes, per point, the outcomes an ideal reader of the format may produce for the owners of the site and for the other
addresses (operator Allowed); it checks NeverMisread, FaultsAreLocal, EverySiteGuarded on the model and, with
VerifyAddr = FALSE, that the only sites through which an unverifying reader can misread are the named holes.
The engine builds the real file with the store's writers, applies the fault byte-exhaustively inside the site and reads
everything back through the store's readers after every single mutation; a panic, a process death, a hang, bytes that
differ from the stored ones, or any outcome outside the allowed set is reported.
(Journal and journal-index faults are C03 / C04: spec/Journal.tla Damage / JournalIndex.tla, engine inpkg/store/nbs/journal.)"""
import importlib.util
import json
import os

LEVEL = "fault_enumeration"
_s = importlib.util.spec_from_file_location("_bp", os.path.join(os.path.dirname(__file__), "_bp.py"))
bp = importlib.util.module_from_spec(_s)
_s.loader.exec_module(bp)
vlib = bp.vlib

PROBES = ["a1", "a2", "a3", "a4", "a5"]   # a4 (prefix shared with a1/a2) and a5 are never stored
SIZES = ["mixed", "small", "tiny", "big"]


def to_case(b, i, seed, maxpos):
    build, fault, read = b[0], b[1], b[2]
    return {"kind": build["kind"], "build": build["how"], "chunks": build["order"], "addrs": PROBES,
            "site": fault["site"], "fault": fault["fault"], "guard": fault["guard"],
            "allowed": read["allowed"], "maxpos": maxpos,
            "binding": {"seed": seed * 17 + i % 5, "sizes": SIZES[i % 4 if build["kind"] != "manifest" else 1]},
            "steps": [{"a": build["kind"] + "/" + build["how"] + "/" + str(len(build["order"]))}, {"a": fault["site"]["cls"] + "/" + str(fault["site"]["i"])},
                      {"a": fault["fault"]}]}


def plan_key(b):
    return (b[0]["kind"], b[0]["how"], len(b[0]["order"]), b[1]["site"]["cls"], b[1]["site"]["i"], b[1]["fault"])


def fingerprint(c, r):
    return "C10:" + str(r.get("fp"))


def critical(c, r):
    # non-trivial: the site has bytes and at least one mutation of it was read back
    return r.get("mutations", 0) > 0


def run(ctx):
    binary = ctx.build_inpkg("store/nbs", "faults")
    test = "TestVerifFaults"
    if ctx.replay:
        rp = json.load(open(ctx.replay))
        res = ctx.run_engine(binary, [], [rp["case"]], shards=1, test_run=test)[0]
        print(json.dumps(res, indent=1)[:6000])
        if res.get("inconclusive"):
            raise vlib.Inconclusive(str(res.get("detail")))
        for sf in res.get("soft") or []:
            ctx.violation(fingerprint(rp["case"], sf), sf.get("detail", ""), {"case": rp["case"], "result": sf, "reproduced": True})
        if not res.get("ok"):
            ctx.violation(fingerprint(rp["case"], res), res.get("detail", ""), {"case": rp["case"], "result": res, "reproduced": True})
        return
    # the unverifying reader: misreads are possible exactly through the named holes (model level)
    ctx.tlc_check("StorageFaults.tla", "c10_holes.cfg", workers=4)
    # the fault plan, exhaustively, with the ideal-reader outcome sets; NeverMisread etc. checked on the way
    r = ctx.tlc_check("StorageFaults.tla", ctx.q("c10_plan_quick.cfg", "c10_plan_thorough.cfg"), workers=4, timeout=3000)
    plan = bp.parse_printed_behaviours(r["out"])
    if not plan:
        raise vlib.Inconclusive("TLC printed no fault plan")
    # one representative insertion order per (kind, history, #chunks, site, fault): the order only permutes ordinals
    groups = {}
    for b in plan:
        groups.setdefault(plan_key(b), []).append(b)
    reps = []
    for k in sorted(groups):
        g = groups[k]
        reps.append(g[ctx.rng.randrange(len(g))])
    total_points = len(reps)
    if True:
        # stratified sample: every (kind, site class, fault) at least once, then fill up
        by = {}
        for b in reps:
            by.setdefault((b[0]["kind"], b[1]["site"]["cls"], b[1]["fault"]), []).append(b)
        chosen = []
        for k in sorted(by):
            chosen.append(by[k][ctx.rng.randrange(len(by[k]))])
        rest = [b for b in reps if b not in chosen]
        ctx.rng.shuffle(rest)
        chosen += rest[:max(0, ctx.q(200, 520) - len(chosen))]
        reps = chosen
    maxpos = ctx.q(24, 64)
    cases = [to_case(b, i, ctx.seed, maxpos) for i, b in enumerate(reps)]
    ctx.cov["fault_plan_points_total"] = len(plan)
    ctx.cov["fault_plan_points_modulo_chunk_order"] = total_points
    ctx.cov["fault_plan_points_executed"] = len(cases)
    ctx.cov["exhaustive"] = False
    ctx.cov["rule"] = ("fault plan = every behaviour Build;CorruptFile;ReadAll of StorageFaults.tla (printed by an exhaustive TLC run); one insertion order per "
                       "(kind, history, #chunks, site, fault) is executed a stratified sample covering every (kind, site class, fault) at least once (quick: 200 points of the 2-chunk plan, "
                       "thorough: 520 points of the 3-chunk plan); inside a site every byte (long sites: at most 24 (quick) / 64 (thorough) positions - first/last 4 bytes + sampled) x "
                       "every bit (bitflip) / 8 values (byteset) / every cut point (truncate) / 8 tails (extend); after every single mutation everything is read back. "
                       "evaluations = guarded reader calls; non-trivial = a plan point of which at least one mutation was read back; distinct by plan point")
    ctx.assumptions += ["reads run in a worker process whose address space is limited to its idle size + 1 GiB, so that runaway allocations kill the worker "
                        "(recorded as outcome 'fatal') instead of the machine; after 2 process deaths at one plan point the rest of that point is skipped",
                        "the manifest has no integrity check by design: a field corrupted into another well-formed value is accepted (counted in notes), only crashes / misread chunks are violations",
                        "archives are built with well distributed real content addresses (archiveReader's interpolation search requires it); table files use colliding prefixes",
                        "journal and journal.idx faults are covered by C03 / C04 and not repeated here"]

    def corrupt(c):
        c["allowed"] = {"owner": ["wrong"], "other": ["wrong"]}
        return c
    good = next(c for c in cases if c["kind"] == "table" and c["site"]["cls"] == "rec.data")
    # binding self-test: with a corrupted expectation (only "wrong" allowed) the engine must flag the real outcomes
    r2 = ctx.run_engine(binary, [], [json.loads(json.dumps(good)), corrupt(json.loads(json.dumps(good)))], shards=1, test_run=test)
    if r2[0].get("ok") and not r2[0].get("soft"):
        if not r2[1].get("soft"):
            raise vlib.Inconclusive("binding self-test failed: engine accepted a corrupted expectation")
        ctx.cov["binding_selftest"] = "corrupted expectation rejected: " + str(r2[1]["soft"][0].get("fp"))

    res = bp.replay(ctx, binary, cases, test, critical=critical, fingerprint=fingerprint, shards=ctx.q(8, 12), timeout=ctx.q(6 * 3600, 16 * 3600),
                    key=lambda c: [c["kind"], c["build"], c["chunks"], c["site"], c["fault"]])
    ok = [r for r in res if r.get("ok")]
    tot = {}
    for r in ok:
        for k, v in (r.get("counts") or {}).items():
            tot[k] = tot.get(k, 0) + v
    ctx.cov["mutations_read_back"] = sum(r.get("mutations", 0) for r in ok)
    ctx.cov["outcome_counts"] = tot
    ctx.cov["worker_process_deaths"] = sum(r.get("fatals", 0) for r in ok)
    ctx.cov["plan_points_cut_short_after_repeated_process_death"] = sum(1 for r in ok if r.get("stopped_after_repeated_fatal"))
    notes = {}
    for r in ok:
        for n in (r.get("notes") or []):
            k = n.rsplit(" x", 1)[0]
            notes[k] = notes.get(k, 0) + int(n.rsplit(" x", 1)[1])
    for k, v in sorted(notes.items()):
        ctx.notes.append("%s: %d mutations" % (k, v))
    covered = {(c["kind"], c["site"]["cls"], c["fault"]) for c, r in zip(cases, res) if r.get("ok")}
    ctx.cov["kind_site_fault_classes_covered"] = len(covered)
    if not ctx.violations and ctx.cov["mutations_read_back"] == 0:
        raise vlib.Inconclusive("no mutation was read back")
