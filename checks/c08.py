"""C08 - garbage collection keeps everything that is still reachable.

Specs: spec/GC.tla -- the collector (ValueStore.GC phases, the keeper gcAddChunk, waitForNotFinalizingGC, NBS BeginGC /
swapTables / EndGC with outstanding reads, the session-aware safepoint controller) against sessions that read, write
(bracketed and unbracketed), commit and hold roots in memory; spec/RepoGC.tla -- Repo.tla + GC / Reopen as stuttering
steps of the abstract repository and collections inside a rebase in progress.

TLC, exhaustive and bounded: NoLoss (closure of the store root and of everything a live session holds is in the store,
at every moment), NoErrs, StoreClosed, OldGenClosed, QuietFinalize, LiveMarkedAtSwap, SwapExact, GCKeepsRoot,
KeeperOnlyDuringGC, GcOutCounts; liveness WritersEventuallyProceed and GCTerminates under fairness; every deliberately
broken variant (skip the final mark, do not visit session roots, do not wait for gcOut = 0, ...) must violate NoLoss.
On the repository machine: GCIsStutter.

Conformance (engine harness/gc):
  R   TLC-generated repository histories with call dolt_gc() (default / --full / --shallow / archive level 0 / incremental
      files) and reopen at TLC-chosen points, also inside a rebase: after every step the whole repository equals the
      model's projection; around every collection the closure of the store root under the real walker is the same set of
      (address, bytes), also on a store freshly opened from the files.
  G   TLC-generated interleavings of the collector's phases with writers, driven through gates on the real
      ValueStore.GC / generational store / safepoint controller (mode vs: gcState, gcOut, gcNewAddrs, keeper, root,
      blocked calls and the chunk set compared after every step) and on the real call dolt_gc() with SQL sessions as
      writers (mode sql: data written during the collection and committed afterwards is present, also after reopen).
  H   scripted hazards: operations in progress x process restart x refs moved by another session x collection.
"""
import collections
import importlib.util
import json
import os

LEVEL = "model_checking"
_s = importlib.util.spec_from_file_location("_bk", os.path.join(os.path.dirname(__file__), "_bk.py"))
bk = importlib.util.module_from_spec(_s)
_s.loader.exec_module(bk)
vlib = bk.vlib

BQ = [{"keys": "small", "c1": "int", "c2": "int", "filler": 0}, {"keys": "spread", "c1": "varchar", "c2": "int", "filler": 25, "rich": True}]
BT = BQ + [{"keys": "spread", "c1": "bigint", "c2": "varchar", "filler": 700}]

BUGS_Q = ["skipFinalMark", "skipVisit"]
BUGS_T = ["skipFinalMark", "skipVisit", "noWaitGcOut", "noRecordInOldGen", "noAddOldGen", "noKeeperOnCommit"]
BUGS_FLAGGED = [("noKeeperOnRead", {"ExtReads": "TRUE"}), ("noPurge", {"UseCache": "TRUE"})]


def T(n):  # a text that does not fit into a tuple
    return "x%d-" % n + "y" * 180


def hazards():
    """Scripted histories (mode rich): every statement must succeed and every @rows must match."""
    base = ["a: create table t (pk int primary key, v varchar(400))",
            "a: insert into t values (1, 'one')",
            "a: call dolt_commit('-Am', 'c2')",
            "a: insert into t values (2, '%s')" % T(2),
            "a: call dolt_commit('-Am', 'c3')"]
    hz = []
    for mode in ("default", "full"):
        hz.append(("rebase-state/head-reset-by-another-session/" + mode, base + [
            "a: call dolt_rebase('-i', 'HEAD~1')",
            "@reopen",
            "b: call dolt_reset('--hard', 'HEAD~1')",
            "@gc %s b" % mode,
            "c: call dolt_checkout('dolt_rebase_main')",
            "c: call dolt_rebase('--abort')",
            "@rows c: select pk from t => (1)"]))
        hz.append(("merge-state-head/branch-forced-by-another-session/" + mode, base + [
            "a: call dolt_branch('side', 'HEAD~1')",
            "a: call dolt_checkout('side')",
            "a: update t set v = 'side' where pk = 1",
            "a: call dolt_commit('-Am', 's1')",
            "a: call dolt_checkout('main')",
            "a: update t set v = 'main' where pk = 1",
            "a: call dolt_commit('-Am', 'c4')",
            "a: call dolt_cherry_pick('side')",
            "@reopen",
            "b: call dolt_checkout('side')",
            "b: call dolt_branch('-f', 'main', 'main~1')",
            "@gc %s b" % mode,
            "c: call dolt_checkout('main')",
            "c: call dolt_cherry_pick('--abort')",
            "@rows c: select pk from t => (1) (2)"]))
    hz.append(("cherry-pick-in-progress/restart/gc/abort", base + [
        "a: call dolt_branch('side', 'HEAD~1')",
        "a: call dolt_checkout('side')",
        "a: update t set v = 'side' where pk = 1",
        "a: call dolt_commit('-Am', 's1')",
        "a: call dolt_checkout('main')",
        "a: update t set v = 'main' where pk = 1",
        "a: call dolt_commit('-Am', 'c4')",
        "a: call dolt_cherry_pick('side')",
        "@reopen", "@gc full b", "@gc default b", "@reopen",
        "@rows c: select `table`, num_conflicts from dolt_conflicts => (t,1)",
        "@rows c: select base_v, our_v, their_v from dolt_conflicts_t => (one,main,side)",
        "c: call dolt_cherry_pick('--abort')",
        "@rows c: select pk, v from t where pk = 1 => (1,main)"]))
    hz.append(("revert-in-progress/restart/gc/resolve/continue", base + [
        "a: update t set v = 'r1' where pk = 1",
        "a: call dolt_commit('-Am', 'r1')",
        "a: update t set v = 'r2' where pk = 1",
        "a: call dolt_commit('-Am', 'r2')",
        "a: call dolt_revert('HEAD~1')",
        "@reopen", "@gc arch0 b", "@gc full-arch0 b", "@reopen",
        "@rows c: select `table`, num_conflicts from dolt_conflicts => (t,1)",
        "c: call dolt_conflicts_resolve('--theirs', 't')",
        "c: call dolt_add('t')",
        "c: call dolt_revert('--continue')",
        "@rows c: select pk, v from t where pk = 1 => (1,one)"]))
    hz.append(("rebase-in-progress/restart/gc/continue", base + [
        "a: insert into t values (3, '%s')" % T(3),
        "a: call dolt_commit('-Am', 'c4')",
        "a: call dolt_rebase('-i', 'HEAD~2')",
        "a: update dolt_rebase set action = 'squash' where rebase_order = 2",
        "@reopen", "@gc inc b", "@gc full-inc b", "@reopen",
        "c: call dolt_checkout('dolt_rebase_main')",
        "c: call dolt_rebase('--continue')",
        "@rows c: select pk from t => (1) (2) (3)",
        "@rows c: select count(*) from dolt_log => (3)"]))
    hz.append(("stash-of-a-deleted-branch/gc/pop", base + [
        "a: call dolt_checkout('-b', 'tmp')",
        "a: insert into t values (4, '%s')" % T(4),
        "a: call dolt_commit('-Am', 'tmp1')",
        "a: insert into t values (5, '%s')" % T(5),
        "a: call dolt_stash('push', 'keep')",
        "a: call dolt_checkout('main')",
        "a: call dolt_branch('-D', 'tmp')",
        "@gc full a", "@reopen", "@gc default b",
        "@rows b: select count(*) from dolt_stashes => (1)",
        "b: call dolt_stash('pop', 'keep')",
        "@rows b: select pk from t => (1) (2) (5)"]))
    hz.append(("tag-on-a-deleted-branch/gc/as-of", base + [
        "a: call dolt_checkout('-b', 'tmp')",
        "a: insert into t values (6, '%s')" % T(6),
        "a: call dolt_commit('-Am', 'tmp1')",
        "a: call dolt_tag('keep', 'HEAD')",
        "a: call dolt_checkout('main')",
        "a: call dolt_branch('-D', 'tmp')",
        "@gc full a", "@reopen", "@gc default b",
        "@rows b: select pk from t as of 'keep' => (1) (2) (6)",
        "@rows b: select pk from `db/keep`.t => (1) (2) (6)"]))
    hz.append(("open-transactions-across-collections", base + [
        "w: set autocommit = 0",
        "x: set autocommit = 0",
        "w: insert into t values (10, '%s')" % T(10),
        "x: insert into t values (20, '%s')" % T(20),
        "@gc default g",
        "w: insert into t values (11, '%s')" % T(11),
        "@gc full g",
        "x: rollback",
        "x: insert into t values (21, '%s')" % T(21),
        "@gc arch0 g",
        "w: commit",
        "x: commit",
        "@gc full-inc g",
        "@rows g: select pk from t => (1) (10) (11) (2) (21)",
        "@reopen",
        "@rows h: select pk, length(v) from t where pk >= 10 => (10,%d) (11,%d) (21,%d)" % (len(T(10)), len(T(11)), len(T(21)))]))
    hz.append(("uncommitted-working-and-staged-changes/gc/restart", base + [
        "a: insert into t values (7, '%s')" % T(7),
        "a: call dolt_add('t')",
        "a: insert into t values (8, '%s')" % T(8),
        "a: create table u (id int primary key)",
        "@gc full b", "@reopen", "@gc default b",
        "@rows c: select pk from t => (1) (2) (7) (8)",
        "@rows c: select pk from t as of 'STAGED' => (1) (2) (7)",
        "@rows c: select table_name, staged, status from dolt_status => (t,0,modified) (t,1,modified) (u,0,new table)"]))
    return [{"stmts": s, "name": n, "mode": "rich", "key": n} for n, s in hz]


def run(ctx):
    binary = ctx.build_engine(bk.ENGINE)
    if ctx.replay:
        bk.replay_one(ctx, binary)
        return
    skip_exh = bool(os.environ.get("BK_SKIP_EXH"))   # developer knob for mutation runs: the model has not changed
    # ---------------------------------------------------------------- 1. the model
    if skip_exh:
        ctx.notes.append("BK_SKIP_EXH set: exhaustive TLC configs skipped (mutation run)")
    else:
        # (Next is one IF-THEN-ELSE: TLC's coverage does not list the sub-actions; vacuity is guarded by the broken variants
        # below -- each needs Swap, the final mark, the visits ... to be reachable -- and by the generator histograms)
        ctx.tlc_check("GC.tla", "c08_gc_exh_quick.cfg", timeout=3000)
        ctx.tlc_check("GC.tla", "c08_gc_live.cfg", timeout=3000, deadlock=True)
        if ctx.tier == "thorough":
            ctx.tlc_check("GC.tla", "c08_gc_exh_thorough_a.cfg", timeout=6 * 3600)
            ctx.tlc_check("GC.tla", "c08_gc_exh_thorough_b.cfg", timeout=6 * 3600)
        viol = {}
        for b in ctx.q(BUGS_Q, BUGS_T):
            viol[b] = bk.expect_model_violation(ctx, "GC.tla", bk.bug_cfg(ctx, "c08_gc_exh_quick.cfg", b), ["NoLoss", "NoErrs"], timeout=3000)
        if ctx.tier == "thorough":
            for b, extra in BUGS_FLAGGED:
                viol[b] = bk.expect_model_violation(ctx, "GC.tla", bk.bug_cfg(ctx, "c08_gc_exh_quick.cfg", b, extra), ["NoLoss", "NoErrs"], timeout=3000)
        ctx.cov["broken_variants_violating_NoLoss"] = viol
        ctx.tlc_check("RepoGC.tla", "c08_repo_exh_quick.cfg", timeout=3000)
        if ctx.tier == "thorough":
            ctx.tlc_check("RepoGC.tla", "c08_repo_exh_thorough.cfg", timeout=4 * 3600)
    ctx.cov["rule"] = (
        "R: behaviours = TLC simulation of RepoGC.tla (two action mixes: merge-centred and working-set-centred; GC in 7 modes, Reopen, a "
        "collection inside a rebase), the most GC-relevant ones selected, each replayed on the real SQL engine: projection of the whole "
        "repository after every step + closure of the store root (real walker; address set, bytes re-hashed) before / after every "
        "dolt_gc and on a second store opened from the files. G/vs: behaviours = TLC simulation of GC.tla (Gated), every step driven "
        "through a gate on the real ValueStore / NomsBlockStore / gcctx controller; compared per step: gcState, gcOut, gcNewAddrs, keeper, "
        "root, held calls, outstanding visits, chunk set when no keeper is installed. G/sql: the same spec (Coarse) on the real call "
        "dolt_gc() with SQL writers. H: scripted hazards. non-trivial = R: a collection while merge/cherry-pick/revert/rebase state or "
        "a stash exists; G: a schedule with a completed swap and a writer step between BeginGC and EndGC; distinct = by action sequence "
        "and binding; evaluations = individual comparisons")
    ctx.assumptions += [
        "sessions of the repository histories run with autocommit and @@dolt_allow_commit_conflicts = 1; the SQL writers of G/sql use explicit transactions",
        "the session-aware safepoint controller (dolt's default) is used; the kill-connections controller is not driven",
        "in mode vs the safepoint controller is a transcription of the unexported dprocedures.sessionAwareSafepointController over the real gcctx controller; "
        "the real one is exercised by mode sql, the repository histories and the hazards",
        "ValueStore / NomsBlockStore internals (gcState, gcOut, gcNewAddrs, gcInProgress) are READ through reflection; nothing in dolt is modified",
        "statistics refs and remote-tracking refs are not created by the histories (no remote, statistics workers not started)"]
    first = True
    only = set(filter(None, os.environ.get("BK_ONLY", "").split(",")))   # developer knob for mutation runs: repo,vs,sql,hazards
    if only:
        ctx.notes.append("BK_ONLY=%s: only these conformance parts were run (mutation run)" % ",".join(sorted(only)))
    # ---------------------------------------------------------------- 2. R: repository histories
    total = collections.Counter()
    for cfg, num, depth, keep in [] if only and "repo" not in only else [(ctx.q("c08_repo_sim_merge_quick.cfg", "c08_repo_sim_merge_thorough.cfg"), ctx.q(40, 800), ctx.q(36, 50), ctx.q(12, 160)),
                                  (ctx.q("c08_repo_sim_ws_quick.cfg", "c08_repo_sim_ws_thorough.cfg"), ctx.q(32, 600), ctx.q(34, 48), ctx.q(8, 120))]:
        beh = ctx.tlc_behaviours("RepoGC.tla", cfg, num=num, depth=depth, timeout=ctx.q(1800, 3 * 3600))
        beh = bk.dedupe_prefix(beh, lambda b: b["steps"])
        beh = bk.select(beh, bk.repo_score, keep)
        cases = bk.repo_cases(beh, cfg, ctx.q(BQ, BT), c09=False)
        total.update(bk.histogram(cases))
        ctx.log("%s: %d behaviours selected" % (cfg, len(cases)))
        if first:
            ctx.binding_selftest(binary, cases[0], bk.corrupt_repo, args=["repo"])
            first = False

        def crit(c, r):
            return any(s["a"] in ("GC", "Reopen") and (any(w["mk"] != "none" for w in s["exp"]["ws"].values()) or s["exp"]["st"]) for s in c["steps"]) \
                or any(k.startswith("gc-inside-rebase") for k in (r.get("stats") or {}))
        res, agg, _ = bk.run_cases(ctx, binary, "repo", cases, crit, "C08")
        bk.add_outcomes(ctx, "R_outcomes", agg)
        ctx.cov["R_collections"] = ctx.cov.get("R_collections", 0) + sum(r.get("gcs", 0) for r in res)
        ctx.cov["R_chunks_walked"] = ctx.cov.get("R_chunks_walked", 0) + sum(r.get("chunks_walked", 0) for r in res)
    for b in [] if only and "repo" not in only else sorted(cases, key=lambda c: -bk.repo_score({"steps": c["steps"], "mid": c["mid"]}))[:1]:
        ctx.sample({"mode": "repo", "steps": ["%s %s(%s) -> %s%s" % (s["s"], s["a"], json.dumps(s["args"], sort_keys=True) if s["args"] else "", s["res"], (" [gc inside: %s]" % m) if m else "")
                                                for s, m in zip(b["steps"], b["mid"])]})
    # ---------------------------------------------------------------- 3. G: gated schedules
    for mode, cfg, num, depth in [x for x in [("vs", ctx.q("c08_gc_sched_quick.cfg", "c08_gc_sched_thorough.cfg"), ctx.q(48, 600), ctx.q(70, 110)),
                                  ("sql", ctx.q("c08_gc_sql_quick.cfg", "c08_gc_sql_thorough.cfg"), ctx.q(24, 200), ctx.q(70, 110))] if not only or x[0] in only]:
        beh = ctx.tlc_behaviours("GC.tla", cfg, num=num, depth=depth, timeout=ctx.q(1800, 3 * 3600))
        beh = bk.dedupe_prefix(beh, lambda b: b)
        if mode == "sql":
            beh = bk.select(beh, lambda b: sum(1 for s in b if s["a"] in ("Swap",) or s["res"] in ("waitfin", "blocked")), ctx.q(12, 100))
        sess = bk.gc_sessions(cfg)
        cases = []
        for i, b in enumerate(beh):
            # (no incremental table files here: they join the old generation's manifest while the mark runs, which the
            # model's AddOldGenFiles does not describe; the repository histories and the hazards use them)
            bd = ({"archive": i % 2, "nojournal": i % 3 == 2} if mode == "vs"
                  else {"filler": [0, 300, 1500][i % 3], "pregc": i % 2 == 1})
            cases.append({"steps": b, "sessions": sess, "binding": bd, "mode": mode, "key": [cfg, bd]})
        ctx.log("%s: %d schedules" % (cfg, len(cases)))
        good = next((c for c in cases if any(s["exp"]["new"] for s in c["steps"][1:])), cases[0])
        ctx.binding_selftest(binary, good, bk.corrupt_sched, args=[mode])
        h = collections.Counter(s["a"] + ":" + s["res"] for c in cases for s in c["steps"])
        ctx.cov.setdefault("G_generated_" + mode, dict(h))
        need = ["Swap:ok", "FinalMark:ok", "VisitDo:ok", "PutTry:waitfin", "CommitTry:in"] + (["PutRaw:blocked", "CancelGC:ok", "ReadEnd:ok"] if mode == "vs" else [])
        missing = [a for a in need if h.get(a, 0) == 0]
        if missing:
            raise vlib.Inconclusive("generator vacuity (%s): never generated: %s" % (mode, missing))

        def crit(c, r):
            acts = [s["a"] for s in c["steps"]]
            if "Swap" not in acts or "BeginGC" not in acts:
                return False
            i, j = acts.index("BeginGC"), len(acts) - 1 - acts[::-1].index("Swap")
            return any(a in ("PutTry", "PutRaw", "CommitTry", "PutDo", "CommitDo") for a in acts[i:j])
        res, agg, _ = bk.run_cases(ctx, binary, mode, cases, crit, "C08")
        bk.add_outcomes(ctx, "G_outcomes_" + mode, agg)
        if mode == "vs":
            ctx.cov["G_chunks_kept_beyond_the_model"] = sum(r.get("extra_kept", 0) for r in res)
        for c in cases[:1]:
            ctx.sample({"mode": mode, "steps": ["%s %s%s -> %s" % (s["s"], s["a"], json.dumps(s["args"], sort_keys=True) if s["args"] else "", s["res"]) for s in c["steps"][1:]]})
    # ---------------------------------------------------------------- 4. H: scripted hazards
    if not only or "hazards" in only:
        hz = hazards()
        res, agg, _ = bk.run_cases(ctx, binary, "rich", hz, lambda c, r: True, "C08")
        ctx.cov["hazards"] = {c["name"]: ("ok" if r.get("ok") else str(r.get("fp"))) for c, r in zip(hz, res)}
    missing = [a for a in ["GC:ok", "Reopen:ok", "Rebase:ok:gc-inside"] if total.get(a, 0) == 0]
    if missing and not ctx.violations and not ctx.known_hits and not only:
        raise vlib.Inconclusive("generator vacuity: never replayed: %s (histogram %s)" % (missing, dict(total)))
