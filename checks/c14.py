"""C14 - three-way tree merges follow key-wise merge semantics.  Spec: spec/MapMerge.tla (on MapDiff.tla / SortedMap.tla).
Engine: harness/prolly, mode merge.

TLC (exhaustive, bounded) proves on the model that three formulations agree for every (base, left, right, policy): the key-wise
Merge3 of the statement, the level-0 patch streams of SendPatches + ApplyPatches (with the soundness condition of range
patches), and the ThreeWayDiffer state machine + the way its ops are applied; the collision handler is invoked exactly for
the keys changed differently on both sides, once, with the sides not swapped.
Conformance: (1) TLC simulation emits histories of two branches (edits on either side, same edit on both, block-key edits
that add/remove whole chunks, merge commits, swapped sides, changing collision policy) with the expected merge after every
step; (2) a TLC generator enumerates (base, left, right, policy).  After every step the engine runs tree.ThreeWayMerge, the
explicit PatchGenerator -> SendPatches -> ApplyPatches pipeline, prolly.MergeMaps and tree.ThreeWayDiffer on multi-level trees
and compares: merged content, merged root = bulk-built root of that content, the exact collision callbacks (key, base/left/
right bytes, diff types), the differ's op sequence and fields, the map obtained by applying the ops, and equality of both
formulations' maps when the policy resolves divergent deletes to deletion."""
import importlib.util
import json
import os

LEVEL = "model_checking"
_spec = importlib.util.spec_from_file_location("_bd", os.path.join(os.path.dirname(__file__), "_bd.py"))
bd = importlib.util.module_from_spec(_spec)
_spec.loader.exec_module(bd)

BINDINGS_Q = [
    {"filler": 0, "inner": 0, "block": 40, "paysz": 0, "pivot": 0},
    {"filler": 200, "inner": 0, "block": 150, "paysz": 40, "pivot": 1, "align": 1},
    {"filler": 700, "inner": 0, "block": 400, "paysz": 120, "pivot": 1},
    {"filler": 1200, "inner": 1, "block": 1200, "paysz": 20, "bpay": 60, "pivot": 1, "align": 1},
    {"filler": 0, "inner": 3, "block": 1800, "paysz": 300, "bpay": 10, "pivot": 0},
]
BINDINGS_T = BINDINGS_Q + [
    {"filler": 3500, "inner": 0, "block": 2500, "paysz": 60, "pivot": 1, "align": 1},
    {"filler": 50, "inner": 8, "block": 90, "paysz": 2000, "bpay": 200, "pivot": 1},
]
# two f1 groups, each: point key, block key, point key (adjacent in the concrete map when inner = 0)
# no filler above the last group: the model keys of the last group are the end of the key space; trees of >= 3 levels
BINDINGS_TAIL = [
    {"filler": 2500, "inner": 0, "block": 300, "paysz": 20, "pivot": 0, "notail": 1},
    {"filler": 6000, "inner": 0, "block": 120, "paysz": 10, "bpay": 8, "pivot": 1, "notail": 1},
    {"filler": 15000, "inner": 1, "block": 900, "paysz": 40, "pivot": 1, "align": 1, "notail": 1},
]
K6 = dict(F1=[0, 1], F2=[0, 1, 2], blocks=[1, 11], twin=[])
SIM = {"quick": dict(K6, cfg="c14_sim_quick.cfg", num=400, depth=10),
       "thorough": dict(K6, cfg="c14_sim_thorough.cfg", num=1200, depth=14)}
GEN = {"quick": dict(K6, cfg="c14_gen_quick.cfg", nshards=64),
       "thorough": dict(K6, cfg="c14_gen_thorough.cfg", nshards=32)}


def mk_cases(ctx, behaviours, k, bindings, off=0):
    out = []
    for i, b in enumerate(behaviours):
        bdg = dict(bindings[(i + off) % len(bindings)])
        bdg["seed"] = ctx.seed * 31 + ((i + off) // len(bindings)) % 3
        key = dict(bdg)
        if b and b[0]["a"] == "Case":
            e = b[0]["exp"]
            key["triple"] = [e["base"], e["left"], e["right"], e["pol"]]
        out.append({"steps": b, "binding": bdg, "F1": k["F1"], "F2": k["F2"], "blocks": k["blocks"], "twin": k["twin"], "key": key})
    return out


def critical(c, r):
    # non-trivial (DESIGN appendix B): at least one collision callback was checked, on trees of height > 1
    return r.get("collisions", 0) > 0 and max(r.get("heights", [0])) > 1


def corrupt(c):
    m = c["steps"][-1]["exp"]["merged"]
    if m:
        m[-1][2] = 1 if m[-1][2] != 1 else 2
    else:
        m.append([c["F1"][0], c["F2"][0], 1])
    return c


def tally(res, agg):
    for r in res:
        if not r.get("ok"):
            continue
        for k in ("collisions", "blockCollisions", "rangePatches", "pointPatches", "merges", "divergentOps"):
            agg[k] = agg.get(k, 0) + int(r.get(k, 0))
        agg["max_patch_level"] = max(agg.get("max_patch_level", 0), r.get("maxLevel", 0))
        agg["cases_with_block_ending_on_chunk_boundary"] = agg.get("cases_with_block_ending_on_chunk_boundary", 0) + (1 if r.get("alignedBlocks", 0) > 0 else 0)
        agg["cases_with_robust_pivot"] = agg.get("cases_with_robust_pivot", 0) + (1 if r.get("robustPivots", 0) > 0 else 0)
        agg["cases_with_model_key_on_chunk_boundary"] = agg.get("cases_with_model_key_on_chunk_boundary", 0) + (1 if r.get("atBoundary", 0) > 0 else 0)
        hs = r.get("heights", [0])
        agg["cases_with_different_heights"] = agg.get("cases_with_different_heights", 0) + (1 if len(set(hs)) > 1 else 0)
        agg["max_height"] = max(agg.get("max_height", 0), max(hs))
        kinds = set(agg.get("op_kinds_seen", [])) | set(r.get("opKinds", []))
        agg["op_kinds_seen"] = sorted(kinds)


def run(ctx):
    binary = ctx.build_engine("prolly")
    if ctx.replay:
        rp = json.load(open(ctx.replay))
        res = ctx.run_engine(binary, ["merge"], [rp["case"]], shards=1)[0]
        print(json.dumps(res, indent=1)[:4000])
        if not res.get("ok"):
            ctx.violation("C14:" + str(res.get("fp", "mismatch")), res.get("detail", ""), {"case": rp["case"], "result": res, "reproduced": True})
        return
    # ---------------------------------------------------------------- the model
    bd.tlc_check(ctx, "MapMerge.tla", ctx.q("c14_exh_quick.cfg", "c14_exh_thorough.cfg"), timeout=2400)
    ctx.cov["rule"] = ("evaluations = individual comparisons with the TLC expectation after a step: merged content, canonical root (bulk build), "
                       "collision-callback set, ApplyPatches root, MergeMaps root, differ op sequence, content after applying the ops, agreement of both "
                       "formulations; a behaviour = a TLC-simulated two-branch history of MapMerge.tla replayed step by step (a full merge check after "
                       "every step), or one TLC-generated (base, left, right, policy); non-trivial = at least one collision callback checked on trees of "
                       "height > 1; distinct = by hash of the action sequence / triple and binding")
    ctx.assumptions += ["keys (int64,int64), values (int64, bytes); values are opaque to the merge (byte equality), no twin encodings here",
                        "collision handlers are functions of the (base, left, right) values: conflict, or resolve to left / right / base / delete / a third value / a mix",
                        "the differ has no resolved value for a divergent delete; equality of the two formulations' maps is demanded only when every "
                        "divergent delete at hand is resolved to deletion or left in conflict (MapMerge!DeleteConsistent)"]
    ctx.notes.append("MergeStats returned by ThreeWayMerge is always zero in this tree (never filled in); it is not part of the statement and not checked")
    agg = {}
    bindings = ctx.q(BINDINGS_Q, BINDINGS_T)
    # ---------------------------------------------------------------- (1) simulated histories
    sim = SIM[ctx.tier]
    beh = bd.cached(ctx, "sim-" + sim["cfg"][:-4], lambda: ctx.tlc_behaviours("MapMerge.tla", sim["cfg"], num=sim["num"] * 2, depth=sim["depth"]))
    beh = bd.sub(beh[:sim["num"]])
    hist = bd.require_actions(ctx, beh, ["EditL", "EditR", "BlockEditL", "BlockEditR", "EditBoth", "SwapSides", "MergeIntoLeft", "SetPolicy"], "C14 behaviours")
    ctx.cov["action_histogram"] = hist
    cs = mk_cases(ctx, beh, sim, bindings)
    good = next((c for c in cs if c["steps"][-1]["exp"]["merged"]), cs[0])
    ctx.binding_selftest(binary, good, corrupt, args=["merge"])
    res = ctx.replay_behaviours(binary, cs, args=["merge"], critical=critical, wrap=lambda c: c,
                                fingerprint=bd.fingerprint("C14"))
    tally(res, agg)
    # ---------------------------------------------------------------- (2) generated triples
    gen = GEN[ctx.tier]
    shards = [ctx.seed % gen["nshards"]] if ctx.tier == "quick" else list(range(gen["nshards"]))
    ntriples = 0
    if not ctx.violations:
        for sh, cases in bd.gen_all(ctx, "gen", "MapMerge.tla", gen["cfg"], shards, gen["nshards"], procs=ctx.q(1, 8), timeout=ctx.q(3000, 30000)):
            gcs = mk_cases(ctx, bd.sub(cases), gen, bindings[1:4] if ctx.tier == "quick" else bindings[1:5], off=sh)
            ntriples += len(gcs)
            r2 = ctx.replay_behaviours(binary, gcs, args=["merge"], critical=critical, wrap=lambda c: c,
                                       fingerprint=bd.fingerprint("C14"))
            tally(r2, agg)
            if ctx.violations:
                break
    # ---------------------------------------------------------------- (3) focus triples on boundary-aligned bindings
    # convergent edit right next to a one-sided block edit: with a block that starts / ends on a chunk boundary both patch
    # streams carry the same chunk with different start keys (SendPatches' "same To, different KeyBelowStart" branch)
    nfocus = 0
    if not ctx.violations:
        aligned = [b for b in bindings if b.get("pivot")]      # boundary-aware bindings: pivot keys, with and without aligned blocks
        fshards = [ctx.seed % 4] if ctx.tier == "quick" else [0, 1, 2, 3]
        for sh, cases in bd.gen_all(ctx, "focus", "MapMerge.tla", "c14_gen_focus.cfg", fshards, 4, procs=ctx.q(1, 4), timeout=ctx.q(3000, 30000)):
            fcs = mk_cases(ctx, bd.sub(cases), GEN[ctx.tier], aligned)
            nfocus += len(fcs)
            r3 = ctx.replay_behaviours(binary, fcs, args=["merge"], critical=critical, wrap=lambda c: c, fingerprint=bd.fingerprint("C14"))
            tally(r3, agg)
    # ---------------------------------------------------------------- (4) tail triples on trees of >= 3 levels without filler above the last group
    # the right side truncates the map (its new tail leaf lies inside the shared part, reached through level-2 / level-1
    # range patches that getNextAndSplitIfAtEnd must split down to the leaf), the left side appends past the old end
    ntail = 0
    tail_deep = 0
    if not ctx.violations:
        for sh, cases in bd.gen_all(ctx, "tail", "MapMerge.tla", "c14_gen_tail.cfg", [0], 1, procs=1, timeout=ctx.q(3000, 30000)):
            tcs = mk_cases(ctx, bd.sub(cases), GEN[ctx.tier], ctx.q(BINDINGS_TAIL[:2], BINDINGS_TAIL))
            ntail += len(tcs)
            r4 = ctx.replay_behaviours(binary, tcs, args=["merge"], critical=critical, wrap=lambda c: c, fingerprint=bd.fingerprint("C14"))
            tally(r4, agg)
            tail_deep += sum(1 for r in r4 if r.get("ok") and r.get("heights", [0, 0, 0])[2] >= 3)
        if ntail and not ctx.violations and tail_deep == 0:
            raise bd.vlib.Inconclusive("vacuity: no tail triple was merged with a right tree of >= 3 levels")
    ctx.cov.update(agg)
    ctx.cov["generated_triples"] = ntriples
    ctx.cov["tail_triples"] = ntail
    ctx.cov["tail_triples_with_right_tree_of_3_levels"] = tail_deep
    ctx.cov["focus_triples"] = nfocus
    if ctx.tier == "thorough" and not ctx.violations:
        ctx.cov["exhaustive"] = True
        ctx.cov["space"] = ("every (base, left, right) with base in {empty, all keys = 1, mixed} and left, right within 2 edits of base over 6 model keys "
                            "(two groups point-block-point) x 2 values, with each of the 7 collision policies when the triple has a collision, under one binding "
                            "per triple; histories with more edits per side, 3 values and merge commits are sampled, not exhaustive")
