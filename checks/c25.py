"""C25 - secondary indexes always mirror their table.  Spec: spec/RepoIndex.tla.  Engine: harness/repo2 (mode index).
TLC (exhaustive, bounded) checks IndexMirrorsTable in every root of the model (every index defined over existing columns, one
entry per row derived from the row's current values, unique indexes without duplicates) and the three-way rule for index sets;
TLC (simulation) emits behaviours; the engine replays them and reads the REAL secondary prolly maps of every table in every root
after every step (see checks/_bj.py: run_c25)."""
import importlib.util
import os

LEVEL = "model_checking"


def run(ctx):
    spec = importlib.util.spec_from_file_location("_bj", os.path.join(os.path.dirname(os.path.abspath(__file__)), "_bj.py"))
    bj = importlib.util.module_from_spec(spec)
    spec.loader.exec_module(bj)
    bj.run_c25(ctx)
