"""C19 - merge bases and ancestor specs resolve as the commit graph dictates; fast-forward checks.
Spec: spec/CommitGraph.tla (+ AncestorSpec.tla).  Engines: harness/commitgraph (mode dag / hist) and the in-package datas engine
inpkg/store/datas/commitgraph (findCommonAncestorUsingParentsList, transitiveClosure).

TLC: (laws config, all DAGs <= 4 commits) both merge-base algorithms of commit.go, modelled operationally, return a highest
common ancestor for EVERY address order, independent of argument order, "none" iff there is none; spec concatenation =
walk composition.  (enumeration configs) every DAG is printed with HCA(a,b) for every ordered pair, the fast-forward class of
every ordered pair, and Walk(c, s) for every commit and every ~/^ string up to the bound.  The engines build each DAG with
real commits and compare every route: datas.FindCommonAncestor, doltdb.GetCommitAncestor, merge.MergeBase,
FindClosureCommonAncestor over Set/LazyCommitClosure, findCommonAncestorUsingParentsList (in-package), SQL dolt_merge_base()
(on-disk sample) - result in HCA, equal for (a,b) and (b,a), stable, none iff HCA = {}; Commit.GetAncestor /
DoltDB.Resolve(<hash><spec>) / SQL dolt_hashof against Walk; Commit.CanFastForwardTo / CanFastReverseTo /
DoltDB.CanFastForward / DoltDB.FastForward (effect on the ref) against the fast-forward class.  Histories (simulation):
CommitWithParentCommits on branches, FastForward, SetHead, DeleteBranch step by step, then the full comparison."""
import importlib.util
import json
import os

LEVEL = "model_checking"
_s = importlib.util.spec_from_file_location("_be", os.path.join(os.path.dirname(__file__), "_be.py"))
be = importlib.util.module_from_spec(_s)
_s.loader.exec_module(be)
vlib = be.vlib

ENV = {"VERIF_ONLY": "c19"}


def critical(c, r):
    # non-trivial: some pair has several equal-height candidates (criss-cross) or no common ancestor at all
    return r.get("multi", 0) > 0 or r.get("unrelated", 0) > 0


def run(ctx):
    binary = ctx.build_engine("commitgraph")
    inpkg = ctx.build_inpkg("store/datas", "commitgraph")

    def engines(eng, mode):
        if eng == "inpkg":
            return inpkg, [], "TestVerifCommitGraph", ENV
        return binary, [mode], None, ENV

    if ctx.replay:
        return be.replay_one(ctx, engines)
    be.cached_tlc(ctx, "CommitGraph.tla", ctx.q("c19_laws_quick.cfg", "c19_laws_thorough.cfg"), None, None)
    cfgs = ctx.q(["c19_dag_quick.cfg", "c19_dag3_quick.cfg", "c19_dagspec_quick.cfg"], ["c19_dag_thorough.cfg", "c19_dag3_thorough.cfg", "c19_dagspec_thorough.cfg"])
    cases, spaces, icases = [], [], []
    for cfg in cfgs:
        graphs, space = be.enumerate_dags(ctx, cfg)
        space["spec_strings"] = len(graphs[0]["specs"])
        cs = be.dag_cases(ctx, graphs, disk_every=ctx.q(90, 1500), gc_every=0, tagname=cfg)
        # the in-package engine (datas level: parents-list walk, closure walk, transitiveClosure) gets EVERY DAG of every space
        icases += [{"graph": be.short_graph(c["graph"]), "binding": {"seed": c["binding"]["seed"]}, "key": "inpkg" + c["key"]} for c in cs]
        if len(cs) > 20000:
            # the big space: the doltdb/SQL-level engine (about 10x the work per DAG) takes every 6th DAG, offset by the seed
            cs = [c for i, c in enumerate(cs) if (i + ctx.seed) % 6 == 0]
            space["doltdb_level_routes"] = "every 6th DAG (%d); datas-level routes: all" % len(cs)
        else:
            space["doltdb_level_routes"] = "all"
        spaces.append(space)
        cases += cs
        if cfg == cfgs[0]:
            acases = be.amp_cases(ctx, graphs, ctx.q(24, 240), ctx.q([130, 100, 300], [130, 100, 300, 700]))
        del graphs
    be.tag(cases, "main", "dag")
    ctx.cov["space"] = spaces
    ctx.cov["exhaustive"] = True
    ctx.cov["rule"] = ("cases = ALL commit DAGs of the stated sizes (TLC reachable states of CommitGraph.tla, count checked against the closed formula) "
                       "x EVERY ordered pair of commits x every merge-base route, EVERY ~/^ string up to the stated length from every commit, every "
                       "ordered pair for the fast-forward routes; plus TLC-simulated histories of branch commits / fast-forwards / force-sets / "
                       "deletes; evaluations = individual comparisons; non-trivial = DAG with a pair that has several equal-height candidates "
                       "or no common ancestor; distinct by parent lists")
    ctx.assumptions += ["no ghost commits (shallow clones) and no commits without a stored closure other than root commits",
                        "which of several equal-height candidates is returned is not prescribed by the property; only membership, determinism and "
                        "argument-order independence are checked (the observed rule is counted in coverage.tie_break)",
                        "^k with k outside {1,2} is rejected by dolt by design (isValidMergeSpec), also on a commit with three parents; ~0 is the commit itself"]

    def corrupt(c):
        # claim that the merge base of (last, last) is another commit
        n = c["graph"]["n"]
        c["graph"]["hca"][n - 1][n - 1] = [1 if n > 1 else 2]
        return c
    ctx.binding_selftest(binary, cases[len(cases) // 2], corrupt, args=["dag"], env=ENV)

    def corrupt_walk(c):
        w = c["graph"]["walk"][-1]
        i = c["graph"]["specs"].index("~")
        w[i] = c["graph"]["n"] if w[i] != c["graph"]["n"] else 0
        return c
    ctx.binding_selftest(binary, cases[-1], corrupt_walk, args=["dag"], env=ENV)
    res = ctx.replay_behaviours(binary, cases, args=["dag"], critical=critical, wrap=lambda c: c, env=ENV, timeout=ctx.q(3600, 30000),
                                fingerprint=lambda c, r: "C19:" + str(r.get("fp")))
    be.check_inconclusive(res)
    tb = {"pairs_with_several_candidates": sum(r.get("multi", 0) for r in res),
          "closure_walk_picked_largest_address": sum(r.get("tiesClosureMax", 0) for r in res),
          "closure_walk_picked_other": sum(r.get("tiesClosureOther", 0) for r in res),
          "set_closure_routes_differ_from_FindCommonAncestor": sum(r.get("routeDisagree", 0) for r in res)}
    notes = [n for r in res for n in (r.get("notes") or [])]
    # amplified binding: the same expectations on deep histories (heights in the hundreds, multi-level closure trees)
    be.tag(acases, "main", "dag")
    ares = ctx.replay_behaviours(binary, acases, args=["dag"], critical=critical, wrap=lambda c: c, env=ENV, timeout=ctx.q(3600, 30000),
                                 fingerprint=lambda c, r: "C19:" + str(r.get("fp")))
    ctx.cov["amplified"] = amp_summary(ares)
    if not ctx.violations and (ctx.cov["amplified"]["max_real_height"] < 512 or "2" not in ctx.cov["amplified"]["closure_tree_heights"]):
        raise vlib.Inconclusive("amplified cases did not reach heights >= 512 / two-level closure trees: %s" % ctx.cov["amplified"])
    # in-package: the parents-list walk on every DAG (it is the merge-base route for commits without a closure)
    be.tag(icases, "inpkg", "dag")
    ctx.binding_selftest(inpkg, icases[len(icases) // 2], corrupt, test_run="TestVerifCommitGraph", env=ENV)
    ires = ctx.replay_behaviours(inpkg, icases, critical=critical_inpkg, wrap=lambda c: c, env=ENV, timeout=ctx.q(3600, 30000), test_run="TestVerifCommitGraph",
                                 fingerprint=lambda c, r: "C19:" + str(r.get("fp")))
    tb["parents_list_walk_picked_smallest_address"] = sum(r.get("tiesListMin", 0) for r in ires)
    tb["parents_list_walk_picked_other"] = sum(r.get("tiesListOther", 0) for r in ires)
    tb["closure_walk_and_parents_list_walk_differ"] = sum(r.get("routeDisagree", 0) for r in ires)
    ctx.cov["tie_break"] = tb
    # histories
    beh = ctx.tlc_behaviours("CommitGraph.tla", ctx.q("c19_hist_quick.cfg", "c19_hist_thorough.cfg"), num=ctx.q(300, 4000), depth=ctx.q(14, 22), timeout=ctx.q(1800, 10000))
    hcases = [{"steps": b["steps"], "final": b["final"], "binding": {"seed": ctx.seed * 31 + i}} for i, b in enumerate(beh)]
    be.tag(hcases, "main", "hist")
    hres = ctx.replay_behaviours(binary, hcases, args=["hist"], critical=critical, wrap=lambda c: c, env=ENV, timeout=ctx.q(3600, 30000),
                                 fingerprint=lambda c, r: "C19:" + str(r.get("fp")))
    acts = {}
    for r in hres:
        for a, k in (r.get("acts") or {}).items():
            acts[a] = acts.get(a, 0) + k
    ctx.cov["history_actions"] = acts
    for a in ("AddCommit", "BranchCommit", "FastForward", "SetHead", "DeleteBranch"):
        if not acts.get(a) and not ctx.violations:
            raise vlib.Inconclusive("history generator never produced action " + a)
    notes += [n for r in hres for n in (r.get("notes") or [])]
    if notes:
        ctx.notes.append("fast-forward classification differs from the spec's (verdict agrees) in %d calls, e.g. %s" % (len(notes), notes[:3]))
    ctx.cov["disk_cases"] = sum(1 for r in res if r.get("store") == "disk")
    ctx.cov["samples"] = [{"case": ({"graph": be.short_graph(s["case"]["graph"]), "binding": s["case"]["binding"]} if "graph" in s["case"]
                                    else {"steps": s["case"]["steps"], "final": be.short_graph(s["case"]["final"])}), "result": s["result"]}
                          for s in ctx.cov["samples"]]


def amp_summary(ares):
    th = {}
    for r in ares:
        for k, v in (r.get("closureTreeHeights") or {}).items():
            th[k] = th.get(k, 0) + v
    return {"cases": sum(1 for r in ares if r.get("ok")), "chain_lengths": sorted({r.get("amp") for r in ares if r.get("amp")}),
            "max_real_height": max([r.get("realMaxHeight", 0) for r in ares] or [0]), "closure_tree_heights": th}


def critical_inpkg(c, r):
    return r.get("multi", 0) > 0
