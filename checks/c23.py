"""C23 - concurrent transactions merge at commit and never lose committed writes; conflicting ones roll back leaving no
trace.  Spec: spec/Txn.tla (+ spec/TraceTxn.tla).  Engine: harness/txn (E8).
  1. TLC exhaustive on bounded configs: the Merge3-based commit rule of doCommit satisfies the cell-level statements
     NoLostCommittedChange, CommittedChangesApplied (= final state is the merge of the committed transactions),
     FailedTxnLeavesNoTrace, StagedMerged, DoltCommitIsStaged (action properties, every transition).
  2. R: TLC simulation emits statement-granular interleavings of K sessions (three families: core DML, dolt commits inside
     transactions / @@dolt_transaction_commit, everything) and a breadth-first transition tour emits shortest behaviours into
     sampled merge / conflict commits of a bounded config; the driver issues one statement at a time in TLC's order and
     compares result class, rows affected, rows read and - through observer sessions - the persisted working, staged and
     head roots and the commit count of every branch after every statement.
  3. T: ungated goroutines run transactions; the call/ret log is validated by TraceTxn.tla (every statement linearizable
     between call and return, final tables = fold of the acknowledged transactions)."""
import importlib.util
import os

LEVEL = "model_checking"
_spec = importlib.util.spec_from_file_location("_bg", os.path.join(os.path.dirname(os.path.abspath(__file__)), "_bg.py"))
bg = importlib.util.module_from_spec(_spec)
_spec.loader.exec_module(bg)
vlib = bg.vlib

EXH = {"quick": ["c23_exh_core1.cfg", "c23_exh_dolt1.cfg", "c23_exh_tc1.cfg"],
       "thorough": ["c23_exh_core1.cfg", "c23_exh_dolt1.cfg", "c23_exh_tc1.cfg", "c23_exh_core2.cfg", "c23_exh_three.cfg", "c23_exh_tc.cfg",
                    "c23_exh_dolt3v.cfg"]}
FAMILIES = {"quick": [("core", "c23_sim_core_quick.cfg", 60, 30), ("dolt", "c23_sim_dolt_quick.cfg", 60, 30), ("full", "c23_sim_full_quick.cfg", 50, 30)],
            "thorough": [("core", "c23_sim_core_thorough.cfg", 150, 40), ("dolt", "c23_sim_dolt_thorough.cfg", 150, 40),
                         ("full", "c23_sim_full_thorough.cfg", 120, 40)]}


def critical(c, r):
    st = r.get("stat") or {}
    return st.get("merge_commits", 0) + st.get("res_retry", 0) > 0


def corrupt_trace(tr):
    """Always rejectable: the first acknowledged write reports 5 affected rows (a single-row statement affects 0 or 1), and
    the final working root of main holds a value 9 that nobody ever wrote: no linearization explains either."""
    for e in tr:
        if e.get("ev") == "ret" and e.get("res") == "ok" and isinstance(e.get("out"), dict) and "aff" in e["out"]:
            e["out"]["aff"] = 5
            break
    for e in tr:
        if e.get("ev") == "final":
            e["store"]["main"]["w"] = [[1, 9, 9]]
    return tr


def trace_nontrivial(tr):
    return any(e.get("ev") == "ret" and e.get("res") == "retry" for e in tr) or sum(1 for e in tr if e.get("ev") == "call" and e.get("a") == "Commit") >= 6


def run(ctx):
    binary = ctx.build_engine("txn")
    if ctx.replay:
        bg.handle_replay(ctx, "C23", binary)
        return
    debug_fast = os.environ.get("VERIF_BG_DEBUG_SKIP_EXH") == "1"  # development aid: the run then ends INCONCLUSIVE
    for cfg in ([] if debug_fast else EXH[ctx.tier]):
        ctx.tlc_check("Txn.tla", cfg, timeout=ctx.q(1800, 7200))
    # negative control: the former handling of a staged-root conflict (named deviation StagedConflict = "ours") must break StagedMerged on the model
    if not debug_fast:
        bg.tlc_expect_violation(ctx, "Txn.tla", "c23_neg_staged_ours.cfg", "StagedProp")
    env = {"VERIF_ONLY": "c23"}
    first = True
    for fam, cfg, num, depth in FAMILIES[ctx.tier]:
        beh = bg.drop_prefixes(ctx.tlc_behaviours("Txn.tla", cfg, num=num, depth=depth, seed=ctx.seed + {"core": 0, "dolt": 500, "full": 900}[fam]))
        h = bg.require_actions(beh, ["Update", "Insert", "Delete", "Commit", "Read"] + (["DoltCommit", "DoltAdd", "SetTc"] if fam != "core" else []), fam, ctx)
        ctx.cov.setdefault("action_histogram", {})[fam] = h
        cs = bg.txn_cases(ctx, beh, fam)
        if first:
            ctx.binding_selftest(binary, cs[0], bg.corrupt_last_store, args=["replay"], env=env)
            first = False
        bg.replay_chunked(ctx, binary, cs, args=["replay"], critical=critical, wrap=lambda c: c, env=env, timeout=ctx.q(3600, 14400),
                              fingerprint=lambda c, r: "C23:" + str(r.get("fp")))
    # transition tour: shortest behaviours into sampled merge / conflict commits of a bounded config (breadth-first TLC)
    tour = bg.tour_behaviours(ctx, "Txn.tla", ctx.q("c23_tour_quick.cfg", "c23_tour_thorough.cfg"), timeout=ctx.q(1800, 7200))
    ctx.cov.setdefault("action_histogram", {})["tour"] = bg.action_histogram(tour)
    bg.replay_chunked(ctx, binary, bg.txn_cases(ctx, tour, "tour", consts=bg.TOUR_CONSTS), args=["replay"], critical=critical, wrap=lambda c: c, env=env, timeout=ctx.q(3600, 14400),
                          fingerprint=lambda c, r: "C23:" + str(r.get("fp")))
    # T mode
    k = bg.TXN_CONSTS["quick"]
    ncases = ctx.q(6, 12)
    cases = [dict(k, workload="txn", Sessions=["s1", "s2", "s3"], Vals=[0, 1, 2], M=ctx.q(5, 7), seed=ctx.seed * 1000 + i,
                  binding=dict(bg.BINDINGS["quick"][i % 3], seed=i)) for i in range(ncases)]
    bg.stress_validate(ctx, "C23", binary, cases, "TraceTxn.tla", "c23_trace.cfg", corrupt=corrupt_trace, nontrivial=trace_nontrivial)
    ctx.cov["rule"] = ("R: behaviours = TLC simulation of Txn.tla (families core / dolt / full), each statement issued alone in TLC's order on "
                       "K sessions of one in-process engine; compared after every statement: result class, rows affected, rows read, and the "
                       "persisted working/staged/head roots + commit count of every branch (observer sessions); non-trivial = behaviour with a "
                       "non-fast-forward commit (merge) or a conflict rollback, distinct by action sequence and binding; plus a breadth-first transition tour "
                       "(shortest paths into sampled non-fast-forward commit attempts of a bounded config). "
                       "T: traces = call/ret logs of 3 concurrent goroutine sessions validated by TraceTxn.tla; non-trivial = trace with a "
                       "conflict rollback or >= 6 commits; evaluations include matched trace events.")
    ctx.assumptions += ["one table with an integer primary key and two non-key columns (int / varchar / text, NULL as a value), filler rows up to 3000; "
                        "schema changes inside transactions are not driven",
                        "statement-granular interleavings (R) plus unconstrained goroutine interleavings (T); no hook between the working-set read and the CAS of doCommit",
                        "reading of the statement: a conflict while merging the STAGED root or a moved HEAD counts like a conflict in the working root "
                        "(retryable error, no trace) - dolt behaves so since commit 5aeba12; autocommit statements whose commit is refused are not generated"]
    ctx.notes.append("dolt_commit that finds nothing to commit commits the SQL transaction and then returns the error 'nothing to commit' "
                     "(documented in dolt_commit.go); treated as a successful transaction commit, not as a failed transaction")
    if debug_fast:
        raise vlib.Inconclusive("VERIF_BG_DEBUG_SKIP_EXH=1: exhaustive TLC runs were skipped (development mode)")
