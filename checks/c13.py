"""C13 - diffs report exactly the changed keys.  Spec: spec/MapDiff.tla (on top of SortedMap.tla).  Engine: harness/prolly, mode diff.

TLC (exhaustive, bounded) proves on the model, for every pair of maps, that the declarative diff (the statement: each key
whose presence/value differs, once, ascending, right type and values, nothing else; ApplyDiff(a, Diff(a, b)) = b) equals the
operational two-cursor walk of the code between separately searched start/stop positions, for the whole key space, every
Range (physical partition; = logical range when contiguous) and every key range.
Conformance: (1) TLC simulation emits version histories (edits of the current version, edits common to both, snapshot,
swap, unrelated rebuild, block-key edits that add/remove whole chunks, twin encodings) with the expected diff after every
step and range queries; (2) a TLC generator emits pairs of maps with the expected diff of every (quick: sampled) Range and
key range.  The engine binds model keys into multi-level trees (static filler, pivot keys on chunk boundaries, block keys)
and compares every callback of DiffMaps / RangeDiffMaps / DiffMapsKeyRange / tree.DiffOrderedTrees /
tree.DiffKeyRangeOrderedTrees with the TLC sequence."""
import importlib.util
import json
import os

LEVEL = "model_checking"
_spec = importlib.util.spec_from_file_location("_bd", os.path.join(os.path.dirname(__file__), "_bd.py"))
bd = importlib.util.module_from_spec(_spec)
_spec.loader.exec_module(bd)

# filler = rows per gap (gaps = |F1| + 1), inner = rows between the f2 intervals of a group, block = rows of a block key
BINDINGS_Q = [
    {"filler": 0, "inner": 0, "block": 40, "paysz": 0, "pivot": 0},
    {"filler": 250, "inner": 2, "block": 150, "paysz": 40, "pivot": 1, "align": 1},
    {"filler": 900, "inner": 0, "block": 500, "paysz": 120, "pivot": 1},
    {"filler": 1500, "inner": 0, "block": 1500, "paysz": 20, "bpay": 60, "pivot": 1, "align": 1},
    {"filler": 0, "inner": 3, "block": 2500, "paysz": 300, "bpay": 10, "pivot": 0},
]
BINDINGS_T = BINDINGS_Q + [
    {"filler": 5000, "inner": 0, "block": 3000, "paysz": 60, "pivot": 1},
    {"filler": 60, "inner": 8, "block": 90, "paysz": 2000, "bpay": 200, "pivot": 1},
]
SIM = {"quick": dict(cfg="c13_sim_quick.cfg", F1=[0, 1], F2=[0, 1], blocks=[10], twin=[[1, 3]], num=500, depth=12),
       "thorough": dict(cfg="c13_sim_thorough.cfg", F1=[0, 1, 2], F2=[0, 1], blocks=[1, 20], twin=[[1, 3]], num=1500, depth=16)}
K4 = dict(F1=[0, 1], F2=[0, 1], blocks=[10], twin=[])
GEN = {"quick": [dict(K4, cfg="c13_gen_quick.cfg", nshards=16)],
       "thorough": [dict(K4, cfg="c13_gen_thorough.cfg", nshards=32), dict(K4, cfg="c13_gen_ranges_thorough.cfg", nshards=4)]}

def mk_cases(ctx, behaviours, k, bindings, off=0):
    out = []
    for i, b in enumerate(behaviours):
        bdg = dict(bindings[(i + off) % len(bindings)])
        bdg["seed"] = ctx.seed * 31 + ((i + off) // len(bindings)) % 3
        key = dict(bdg)
        if b and b[0]["a"] == "Case":
            key["pair"] = [b[0]["exp"]["from"], b[0]["exp"]["to"]]
        out.append({"steps": b, "binding": bdg, "F1": k["F1"], "F2": k["F2"], "blocks": k["blocks"], "twin": k["twin"], "key": key})
    return out


def critical(c, r):
    # non-trivial: diffs taken on multi-level trees with at least one range / key-range query, or whole chunks added/removed
    return (max(r.get("hFrom", 0), r.get("hTo", 0)) > 1 and r.get("queries", 0) > 0) or r.get("blockDiffs", 0) > 0


def corrupt(c):
    # drop the last expected diff entry of the last step that has one (or invent one where all diffs are empty)
    for s in reversed(c["steps"]):
        if s["exp"]["diff"]:
            s["exp"]["diff"] = s["exp"]["diff"][:-1]
            return c
    c["steps"][-1]["exp"]["diff"] = [[c["F1"][0], c["F2"][0], "added", 0, 1]]
    return c


def tally(ctx, res, agg):
    for r in res:
        if not r.get("ok"):
            continue
        for k in ("queries", "rangeQ", "nonContig", "blockDiffs", "twinFiltered"):
            agg[k] = agg.get(k, 0) + int(r.get(k, 0))
        agg["cases_with_block_ending_on_chunk_boundary"] = agg.get("cases_with_block_ending_on_chunk_boundary", 0) + (1 if r.get("alignedBlocks", 0) > 0 else 0)
        agg["cases_with_robust_pivot"] = agg.get("cases_with_robust_pivot", 0) + (1 if r.get("robustPivots", 0) > 0 else 0)
        agg["cases_with_model_key_on_chunk_boundary"] = agg.get("cases_with_model_key_on_chunk_boundary", 0) + (1 if r.get("atBoundary", 0) > 0 else 0)
        agg["cases_with_different_heights"] = agg.get("cases_with_different_heights", 0) + (1 if r.get("hFrom") != r.get("hTo") else 0)
        agg["max_height"] = max(agg.get("max_height", 0), r.get("hFrom", 0), r.get("hTo", 0))
        agg["max_diff_len"] = max(agg.get("max_diff_len", 0), r.get("maxDiff", 0))


def run(ctx):
    binary = ctx.build_engine("prolly")
    if ctx.replay:
        rp = json.load(open(ctx.replay))
        res = ctx.run_engine(binary, ["diff"], [rp["case"]], shards=1)[0]
        print(json.dumps(res, indent=1)[:4000])
        if not res.get("ok"):
            ctx.violation("C13:" + str(res.get("fp", "mismatch")), res.get("detail", ""), {"case": rp["case"], "result": res, "reproduced": True})
        return
    # ---------------------------------------------------------------- the model
    if ctx.tier == "quick":
        bd.tlc_check(ctx, "MapDiff.tla", "c13_exh_quick.cfg")
        bd.tlc_check(ctx, "MapDiff.tla", "c13_exh_ranges_quick.cfg")
        bd.tlc_check(ctx, "MapDiff.tla", "c13_exh_twin_quick.cfg")
    else:
        bd.tlc_check(ctx, "MapDiff.tla", "c13_exh_thorough.cfg", timeout=2400)
        bd.tlc_check(ctx, "MapDiff.tla", "c13_exh_twin_thorough.cfg", timeout=2400)
    ctx.cov["rule"] = ("evaluations = individual diff calls (DiffMaps x4 variants, DiffMapsKeyRange, RangeDiffMaps, tree-level differs) whose complete "
                       "callback sequence (key, type, from bytes, to bytes) was compared with the TLC sequence; a behaviour = a TLC-simulated "
                       "version history of MapDiff.tla replayed step by step, or one TLC-generated pair of maps with its range queries; "
                       "non-trivial = run on trees of height > 1 with at least one Range / key-range query, or with a block-key diff "
                       "(whole chunks added/removed); distinct = by hash of the action sequence and binding")
    ctx.assumptions += ["keys (int64,int64), values (int64, bytes); one value descriptor pair plus one differing descriptor for the schema-change path",
                        "RangeDiffMaps is checked against the physical partition of the Range (documented: 'See Range for which diffs are returned'); "
                        "TLC proves this equals the logical range for every contiguous range",
                        "block keys are atomic in the model: range bounds never cut a block"]
    ctx.notes.append("statement reading: for non-contiguous Ranges prolly.RangeDiffMaps reports the diffs of the enclosing physical key partition "
                     "(callers re-filter); this documented behaviour is what is checked, the logical-range reading only for contiguous ranges")
    agg = {}
    # ---------------------------------------------------------------- (1) simulated version histories
    sim = SIM[ctx.tier]
    beh = bd.cached(ctx, "sim-" + sim["cfg"][:-4], lambda: ctx.tlc_behaviours("MapDiff.tla", sim["cfg"], num=sim["num"] * 2, depth=sim["depth"]))
    beh = bd.sub(beh[:sim["num"]])
    hist = bd.require_actions(ctx, beh, ["Build", "Put", "Delete", "BlockPut", "BlockDelete", "Snapshot", "Swap", "Rebuild", "Query"], "C13 behaviours")
    ctx.cov["action_histogram"] = hist
    bindings = ctx.q(BINDINGS_Q, BINDINGS_T)
    cs = mk_cases(ctx, beh, sim, bindings)
    good = next((c for c in cs if any(s["exp"]["diff"] for s in c["steps"])), cs[0])
    ctx.binding_selftest(binary, good, corrupt, args=["diff"])
    res = ctx.replay_behaviours(binary, cs, args=["diff"], critical=critical, wrap=lambda c: c,
                                fingerprint=bd.fingerprint("C13"))
    tally(ctx, res, agg)
    # ---------------------------------------------------------------- (2) generated pairs x ranges
    npairs = 0
    for gen in GEN[ctx.tier]:
        shards = [ctx.seed % gen["nshards"]] if ctx.tier == "quick" else list(range(gen["nshards"]))
        for sh, cases in bd.gen_all(ctx, "gen", "MapDiff.tla", gen["cfg"], shards, gen["nshards"], overrides={"Salt": ctx.seed * 1009},
                                       procs=ctx.q(1, 8), timeout=ctx.q(3000, 30000)):
            gcs = mk_cases(ctx, bd.sub(cases), gen, bindings[1:4] if ctx.tier == "quick" else bindings[1:5], off=sh)
            npairs += len(gcs)
            r2 = ctx.replay_behaviours(binary, gcs, args=["diff"], critical=critical, wrap=lambda c: c,
                                       fingerprint=bd.fingerprint("C13"))
            tally(ctx, r2, agg)
            if ctx.violations:
                break
        if ctx.violations:
            break
    ctx.cov.update(agg)
    ctx.cov["generated_pairs"] = npairs
    if ctx.tier == "thorough" and not ctx.violations:
        ctx.cov["exhaustive"] = True
        ctx.cov["space"] = ("every ordered pair of maps over 4 model keys (one of them a block key) x 2 values = 6561 pairs, each with the whole-map "
                            "diffs, every key range (25) and 24 pseudo-randomly chosen Ranges; every ordered pair of maps over the same keys x 1 value "
                            "= 256 pairs, each with EVERY Range over the model field values (650) and every key range; one binding per pair; "
                            "version histories with 6 keys / twin encodings / rebuilds are sampled, not exhaustive")
