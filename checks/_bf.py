"""Shared machinery of C20 / C21 (builder bF): spec/RefStore.tla, spec/TraceRefStore.tla, engine harness/refstore.

G-mode: TLC simulation of RefStore.tla emits interleavings of 2-3 clients (Begin / ReadRoot / CAS / PostRead / Refresh /
Rebase / StoreFault steps, each with the model's persisted dataset map, control points, result classes and returned
datasets after the step); the engine replays them on datas.Database over a gating ChunkStore wrapper.
T-mode: ungated goroutines / OS processes; call-return logs validated by TraceRefStore.tla.
"""
import copy
import hashlib
import json
import os
import re
import shutil
import subprocess
import sys
import tempfile
import time

sys.path.insert(0, os.path.join(os.path.dirname(os.path.dirname(os.path.abspath(__file__))), "lib"))
import vlib  # noqa: E402

SHARED_BACKENDS = ["memshared", "nbsshared", "journal"]
INST_BACKENDS = ["memviews", "nbsmulti"]
ALL_KINDS = ["Commit", "CommitForce", "Amend", "FF", "SetHead", "Tag", "Delete", "UpdWS", "CWW", "SetTuple", "Get"]

# ------------------------------------------------------------------ model values used by the stress workloads (inputs, not expectations)
N = {"k": "n"}
P0 = {"k": "c", "r": "r0", "ps": [], "a": "pre"}
P1 = {"k": "c", "r": "r1", "ps": [P0], "a": "pre"}
P2 = {"k": "c", "r": "r2", "ps": [P0], "a": "pre"}


def ws(w, s, m):
    return {"k": "w", "w": w, "s": s, "m": m}


# the three initial roots of RefStore!InitRoot for Branches = {b1,b2}, Tags = {t1}, Tuples = {k1}
INITS = [
    {"heads": {"b1": P0, "b2": N}, "ws": {"b1": ws("r0", "r0", 0), "b2": N}, "tags": {"t1": N}, "tuples": {"k1": N}},
    {"heads": {"b1": P1, "b2": N}, "ws": {"b1": ws("r2", "r1", 1), "b2": N}, "tags": {"t1": {"k": "t", "c": P0}}, "tuples": {"k1": N}},
    {"heads": {"b1": P1, "b2": P2}, "ws": {"b1": N, "b2": ws("r2", "r2", 0)}, "tags": {"t1": N}, "tuples": {"k1": N}},
]


def clients_of(b):
    for s in b[1:]:
        return sorted(s["exp"]["pc"].keys())
    return ["A", "B"]


def gated_cases(ctx, behaviours, backends, fillers):
    out = []
    for i, b in enumerate(behaviours):
        be = backends[i % len(backends)]
        fl = fillers[(i // len(backends)) % len(fillers)]
        if be in ("nbsshared", "nbsmulti", "journal"):
            fl = min(fl, 40)  # every filler dataset costs one manifest update (fsync) on the file-backed stores
        bd = {"backend": be, "seed": ctx.seed * 131 + i % 7, "filler": fl}
        out.append({"steps": b, "clients": clients_of(b), "binding": bd, "key": bd})
    return out


def behaviour_facts(b):
    """Mechanical facts about a behaviour (which steps it contains) used for the non-triviality counters."""
    f = {"cas_fail": 0, "cww": 0, "cww_raced": 0, "faults": 0, "kinds": set(), "res": set(), "noop": 0}
    cur = {}
    start = {}
    for i, s in enumerate(b[1:], 1):
        a, c = s["a"], s["c"]
        if a == "Begin":
            cur[c] = s["args"]["kind"]
            start[c] = i
            f["kinds"].add(cur[c])
            if cur[c] == "CWW":
                f["cww"] += 1
        if a == "CAS":
            if not s["exp"]["x"]["casok"]:
                f["cas_fail"] += 1
            if s["exp"]["x"]["noop"]:
                f["noop"] += 1
        if a == "StoreFault":
            f["faults"] += 1
        if s["exp"].get("pc", {}).get(c) == "done" and a in ("Begin", "ReadRoot", "PostRead", "StoreFault"):
            f["res"].add((cur.get(c), s["exp"]["res"]))
            if cur.get(c) == "CWW":
                # did another client change the root while this CommitWithWorkingSet was in flight?
                for t in b[start[c]:i]:
                    if t["c"] != c and t["a"] == "CAS" and t["exp"]["x"]["casok"]:
                        f["cww_raced"] += 1
                        break
    return f


def corrupt_root(case):
    """Binding self-test: change one expected persisted value (the model's dataset map after the last CAS that succeeded)."""
    c = case
    for s in reversed(c["steps"]):
        if s["a"] == "CAS" and s["exp"]["x"]["casok"] and not s["exp"]["x"]["noop"]:
            root = s["exp"]["root"]
            for grp in ("heads", "ws", "tuples", "tags"):
                for name, v in (root.get(grp) or {}).items() if isinstance(root.get(grp), dict) else []:
                    if v.get("k") == "c":
                        v["r"] = "r0" if v["r"] != "r0" else "r1"
                        return c
                    if v.get("k") == "w":
                        v["s"] = "r0" if v["s"] != "r0" else "r1"
                        return c
            break
    # fall back: claim the last finished operation returned another error class
    for s in reversed(c["steps"]):
        if s["exp"].get("pc", {}).get(s["c"]) == "done" and s["a"] in ("Begin", "ReadRoot", "PostRead"):
            s["exp"]["res"] = "merge" if s["exp"]["res"] != "merge" else "lock"
            return c
    return c


def corrupt_drop(case):
    """Binding self-test: drop one step (a successful CAS) from the behaviour."""
    c = case
    for i, s in enumerate(c["steps"]):
        if s["a"] == "CAS" and s["exp"]["x"]["casok"]:
            del c["steps"][i]
            return c
    del c["steps"][len(c["steps"]) // 2]
    return c


def pick_selftest_case(cases):
    for c in cases:
        if c["binding"]["backend"] in ("memshared", "memviews") and any(
                s["a"] == "CAS" and s["exp"]["x"]["casok"] and not s["exp"]["x"]["noop"] for s in c["steps"][1:]):
            return c
    return cases[0]


def expect_model_violation(ctx, module, cfg, needle, timeout=3600):
    """Non-vacuity of an invariant: TLC must find a violation in the deliberately wrong variant of the model."""
    d = ctx._spec_dir()
    md = tempfile.mkdtemp(prefix="md-", dir=ctx.work)
    cmd = ["java", "-XX:+UseParallelGC", "-Xss256m", "-Xmx2g", "-cp", vlib.TLA_CP, "tlc2.TLC", "-workers", "2", "-metadir", md,
           "-config", os.path.join("cfg", cfg), "-deadlock", "-noGenerateSpecTE", module]
    try:
        rc, out = vlib.sh(cmd, cwd=d, timeout=timeout)
    except subprocess.TimeoutExpired:
        raise vlib.Inconclusive("TLC timeout on %s/%s" % (module, cfg))
    finally:
        shutil.rmtree(md, ignore_errors=True)
    if needle not in out:
        raise vlib.Inconclusive("vacuity: TLC did not find the expected violation (%s) in %s/%s:\n%s" % (needle, module, cfg, out[-1500:]))
    ctx.log("TLC %s/%s: expected violation found (%s)" % (module, cfg, needle))


# ------------------------------------------------------------------ T-mode
def stress_cases(ctx, n, backends, kinds, clients=("A", "B", "C"), nops=6, mode="stress", cuts=0):
    out = []
    for i in range(n):
        be = backends[i % len(backends)]
        c = {"backend": be, "clients": list(clients), "seed": ctx.seed * 100003 + i, "filler": [0, 12, 40][(i // 2) % 3], "init": INITS[(i // len(backends)) % 3],
             "nops": nops, "branches": ["b1", "b2"], "tags": ["t1"], "tuples": ["k1"], "vals": ["r1", "r2"], "pre": [1, 2, 3, 4],
             "kinds": kinds, "mode": mode}
        if cuts:
            c["cuts"] = cuts
        out.append(c)
    return out


def split_traces(events):
    out = []
    for e in events:
        if e["ev"] == "reset":
            out.append([])
        out[-1].append(e)
    return out


def validate_traces(ctx, traces, cfg, label, chunk=12, replay_extra=None):
    """traces: list of event lists (each starts with a reset). Validated in concatenated chunks; a rejected chunk is
    bisected to the single rejected trace, which is validated once more alone before it is reported."""
    ok = 0
    for i in range(0, len(traces), chunk):
        part = traces[i:i + chunk]
        acc, matched, total, out = _validate(ctx, part, cfg)
        if acc:
            ok += len(part)
            ctx.cov["evaluations"] += total
            continue
        # which trace?
        pos = 0
        for t in part:
            if matched < pos + len(t):
                acc2, m2, tot2, out2 = _validate(ctx, [t], cfg)
                if acc2:
                    ctx.notes.append("trace rejected inside a batch but accepted alone (ignored): %s" % label)
                    ok += 1
                    break
                e = t[m2] if 0 <= m2 < len(t) else {}
                # the operation the rejected line belongs to
                opk = "?"
                if e.get("ev") == "ret":
                    for p in reversed(t[:m2]):
                        if p.get("ev") == "call" and p.get("c") == e.get("c"):
                            opk = p["op"]["kind"]
                            break
                fp = "%s:trace:%s:%s:%s" % (ctx.id, e.get("ev"), opk, e.get("res"))
                ctx.violation(fp, "history of real concurrent calls is not a behaviour of RefStore.tla: first unexplained event is line %d %s\n%s" %
                              (m2 + 1, json.dumps(e)[:600], out2[-800:]),
                              {"mode": "trace", "cfg": cfg, "trace": t, "matched": m2, "reproduced": True, "label": label})
                break
            pos += len(t)
            ok += 1
        else:
            raise vlib.Inconclusive("trace validation failed without a rejected trace:\n" + out[-2000:])
    ctx.cov["traces_validated_against_impl"] += ok
    ctx.log("trace validation (%s): %d of %d traces accepted" % (label, ok, len(traces)))
    return ok


def _validate(ctx, traces, cfg):
    p = os.path.join(ctx.work, "trace-%d.ndjson" % (time.time_ns() % 10**9))
    with open(p, "w") as f:
        for t in traces:
            for e in t:
                f.write(json.dumps(e) + "\n")
    r = ctx.tlc_trace_validate("TraceRefStore.tla", cfg, p, timeout=5400)
    m = re.search(r"(\d+) states generated, (\d+) distinct states found", r[3])
    if m:
        ctx.cov["trace_search_states_max"] = max(int(ctx.cov.get("trace_search_states_max", 0)), int(m.group(1)))
    return r


def trace_selftest(ctx, trace, cfg):
    """Binding demonstration for T-mode: a trace with one flipped result and a trace with one dropped event must be rejected."""
    acc, m, tot, out = _validate(ctx, [trace], cfg)
    if not acc:
        return  # the real run reports it
    bad = copy.deepcopy(trace)
    idx = [i for i, e in enumerate(bad) if e["ev"] == "ret" and e["res"] == "ok" and e["h"].get("k") in ("c", "w")]
    if not idx:
        return
    i = idx[len(idx) // 2]
    bad[i]["res"] = "merge"
    acc1, m1, _, _ = _validate(ctx, [bad], cfg)
    bad2 = copy.deepcopy(trace)
    h = bad2[i]["h"]
    if h["k"] == "c":
        h["r"] = "r0" if h["r"] != "r0" else "r1"
    else:
        h["s"] = "r0" if h["s"] != "r0" else "r1"
    acc2, m2, _, _ = _validate(ctx, [bad2], cfg)
    if acc1 or acc2:
        raise vlib.Inconclusive("binding self-test failed: TraceRefStore accepted a corrupted trace")
    ctx.cov["trace_selftest"] = "flipped result rejected at line %d, altered returned head rejected at line %d of %d" % (m1 + 1, m2 + 1, tot)


def run_stress(ctx, binary, cases, mode):
    res = ctx.run_engine(binary, [mode], cases, shards=min(4, len(cases)), timeout=3000)
    ctx.log("%s workloads: %d run" % (mode, len(cases)))
    traces = []
    for c, r in zip(cases, res):
        if r.get("skipped") or r.get("ok") is None:
            raise vlib.Inconclusive("%s workload could not run: %s" % (mode, str(r.get("detail"))[:500]))
        if r.get("crash"):
            raise vlib.Inconclusive("engine crashed in %s mode: %s" % (mode, str(r.get("detail"))[:1500]))
        if not r["ok"]:
            # C21 inspection or a panic inside dolt: re-run once with the same seed
            r2 = ctx.run_engine(binary, [mode], [dict(c)], shards=1)[0]
            rr = r2 if not r2.get("ok") and r2.get("ok") is not None else r
            ctx.violation("%s:%s" % (ctx.id, rr.get("fp")), str(rr.get("detail"))[:1500],
                          {"mode": mode, "case": c, "result": {k: v for k, v in rr.items() if k != "trace"}, "reproduced": rr is r2,
                           "note": "concurrent workload; the second run used the same seed but the schedule is the OS's"})
            continue
        if "trace" in r:
            traces += split_traces(r["trace"])
    return res, traces


def replay_saved(ctx, binary):
    rp = json.load(open(ctx.replay))
    mode = rp.get("mode", "gated")
    if mode == "trace":
        acc, m, tot, out = _validate(ctx, [rp["trace"]], rp["cfg"])
        print("trace of %d events: matched %d, accepted=%s" % (tot, m, acc))
        if not acc:
            ctx.violation(rp.get("fingerprint", "trace"), "recorded history rejected again at line %d" % (m + 1), rp)
        return
    if mode in ("stress", "procs", "crash"):
        r = ctx.run_engine(binary, [mode], [rp["case"]], shards=1)[0]
        print(json.dumps({k: v for k, v in r.items() if k != "trace"}, indent=1)[:3000])
        if r.get("ok") is False:
            ctx.violation("%s:%s" % (ctx.id, r.get("fp")), str(r.get("detail")), {"mode": mode, "case": rp["case"], "reproduced": True})
        return
    r = ctx.run_engine(binary, ["gated"], [rp["case"]], shards=1)[0]
    print(json.dumps(r, indent=1)[:4000])
    if r.get("ok") is False:
        ctx.violation("%s:%s" % (ctx.id, r.get("fp")), r.get("detail", ""), {"case": rp["case"], "result": r, "reproduced": True})
