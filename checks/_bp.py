"""Helpers shared by checks/c41.py and checks/c10.py (builder bP)."""
import hashlib
import json
import os
import sys

sys.path.insert(0, os.path.join(os.path.dirname(os.path.dirname(os.path.abspath(__file__))), "lib"))
import vlib


def parse_printed_behaviours(out):
    """Behaviours printed with PrintT(ToJson(hist)) by an exhaustive TLC run (ctx.tlc_check(...)["out"])."""
    res, seen = [], set()
    for line in out.splitlines():
        if line.startswith('"[') or line.startswith('"{'):
            try:
                b = json.loads(json.loads(line))
            except Exception:
                continue
            h = hashlib.sha1(json.dumps(b, sort_keys=True).encode()).hexdigest()
            if h not in seen:
                seen.add(h)
                res.append(b)
    return res


def replay(ctx, binary, cases, test_run, critical=None, fingerprint=None, shards=None, timeout=3600, env=None,
           key=lambda c: [s.get("a") for s in c.get("steps", [])]):
    """Like vlib.Ctx.replay_behaviours, but an engine result marked {"inconclusive": true} (harness trouble: spawn
    failure, strace marker timeout on a loaded machine, ...) makes the check INCONCLUSIVE instead of a violation, and
    `soft` findings of cases that are otherwise fine are reported through ctx.violation (known-finding matching)."""
    res = ctx.run_engine(binary, [], cases, shards=shards, test_run=test_run, timeout=timeout, env=env)
    bad = []
    for c, r in zip(cases, res):
        if r.get("skipped"):
            continue
        ctx.cov["evaluations"] += int(r.get("evals", 1))
        for sf in (r.get("soft") or []):
            fp = fingerprint(c, sf) if fingerprint else str(sf.get("fp"))
            ctx.violation(fp, sf.get("detail", ""), {"case": c, "result": sf, "reproduced": True})
        if r.get("ok"):
            ctx.cov["traces_validated_against_impl"] += 1
            k = hashlib.sha1(json.dumps(key(c), sort_keys=True, default=str).encode()).hexdigest()
            if critical is None or critical(c, r):
                ctx.nontrivial(k)
                ctx.sample({"case": c, "result": {k2: v for k2, v in r.items() if k2 not in ("n", "soft")}})
        else:
            bad.append((c, r))
    skipped = sum(1 for r in res if r.get("skipped"))
    if skipped and not bad:
        raise vlib.Inconclusive("%d cases skipped without a failing case" % skipped)
    for c, r in bad[:10]:
        r2 = ctx.run_engine(binary, [], [dict(c)], shards=1, test_run=test_run, timeout=timeout, env=env)[0]
        if r2.get("ok"):
            ctx.notes.append("unreproduced mismatch (ignored): " + json.dumps(r)[:500])
            continue
        if r2.get("inconclusive") or r2.get("crash") and "harness" in str(r2.get("detail", ""))[:200]:
            raise vlib.Inconclusive("engine trouble (not a verdict): " + str(r2.get("detail") or r2)[:1500])
        fp = fingerprint(c, r2) if fingerprint else str(r2.get("fp") or "mismatch")
        ctx.violation(fp, r2.get("detail") or json.dumps(r2)[:1500], {"case": c, "result": r2, "reproduced": True})
    if bad and not ctx.violations and not ctx.known_hits and not any("unreproduced" in n for n in ctx.notes):
        raise vlib.Inconclusive("mismatches vanished")
    return res
