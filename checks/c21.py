"""C21 - a commit and its working-set update land together: every persisted store root has (head, working set) either
both old or both new, for every interleaving with other writers and every crash point.
Spec: spec/RefStore.tla, invariant HeadWsAtomic (+ NoLostUpdate, ResultMatchesCAS).   Engine: harness/refstore.

1. TLC exhaustive: CommitWithWorkingSet racing with UpdateWorkingSet / SetHead / FastForward / Commit / Delete
   (quick 2 clients 2+1 ops; thorough 3 clients and per-client store instances): HeadWsAtomic = every root change made by
   a CommitWithWorkingSet sets head and working set together, exactly one successful store commit iff it returns success.
   The same invariant is shown to FAIL (TLC must find the counterexample) on the model variant SplitCWW, which performs
   the update as two loops - the design the property forbids.
2. G: TLC-chosen interleavings replayed under gates; after EVERY successful ChunkStore.Commit the engine decodes the root
   that was replaced and the root that was persisted: a CommitWithWorkingSet's commit must carry (new head, new working set)
   and must have been applied to (checked head, checked working set); successful CommitWithWorkingSet <=> exactly one.
   StoreFault steps inject a failing Root()/Commit() into the loop: the call must fail and leave the root untouched.
3. T: ungated goroutines / OS processes: the same inspection of every persisted root (by root hash, race-free).
4. Crash points: the journal written by such a workload is cut at many offsets; the store recovered from each cut must come
   up with one of the inspected persisted roots.
"""
import importlib.util
import os

LEVEL = "model_checking"
_s = importlib.util.spec_from_file_location("_bf", os.path.join(os.path.dirname(__file__), "_bf.py"))
bf = importlib.util.module_from_spec(_s)
_s.loader.exec_module(bf)
vlib = bf.vlib


def critical(c, r):
    f = bf.behaviour_facts(c["steps"])
    return f["cww_raced"] > 0 and not r.get("truncated")


def run(ctx):
    binary = ctx.build_engine("refstore")
    if ctx.replay:
        bf.replay_saved(ctx, binary)
        return
    # VERIF_BF_SKIP_EXH=1: builder's mutation runs only (the exhaustive TLC part does not depend on the dolt tree)
    for cfg in [] if os.environ.get("VERIF_BF_SKIP_EXH") else ctx.q(["c21_exh_quick.cfg"], ["c21_exh_quick.cfg", "c21_exh_thorough.cfg", "c21_exh_t_inst.cfg"]):
        ctx.tlc_check("RefStore.tla", cfg, timeout=ctx.q(7200, 14400), heap=ctx.q("6g", "8g"))
    bf.expect_model_violation(ctx, "RefStore.tla", "c21_split.cfg", "Invariant HeadWsAtomic is violated")
    ctx.cov["non_vacuity"] = "HeadWsAtomic is violated (TLC counterexample found) on the SplitCWW variant of the model (two update loops)"
    ctx.assumptions += [
        "crash-visible states are exactly the roots persisted by successful ChunkStore.Commit calls (C02/C03 are separate checks); "
        "the crash part cuts the journal file at byte offsets (prefix semantics) and removes the journal index before reopening",
        "working sets carry working root, staged root and an optional meta record; merge/rebase state is not driven",
        "the engine recognises a CommitWithWorkingSet's commit by its author (= client id) and root value",
    ]
    ctx.cov["rule"] = ("G: behaviours = TLC simulations of RefStore.tla with CommitWithWorkingSet racing against working-set writers and head movers; "
                       "one evaluation = one comparison with the model or one C21 inspection of a persisted root; non-trivial = behaviour in which another "
                       "client's store commit succeeded while a CommitWithWorkingSet was in flight, replayed to its end; distinct by action sequence + binding. "
                       "T: traces accepted by TraceRefStore.tla with every persisted root inspected; crash: journal cuts whose recovered root was inspected")
    nq = ctx.q(1, 6)
    beh_s = ctx.tlc_behaviours("RefStore.tla", "c21_sim_shared.cfg", num=150 * nq * 2, depth=90, timeout=7200, procs=4)
    beh_i = ctx.tlc_behaviours("RefStore.tla", "c21_sim_inst.cfg", num=90 * nq * 2, depth=60, seed=ctx.seed + 5, timeout=7200, procs=4)
    fill = ctx.q([0, 30, 400], [0, 30, 400, 3000])
    cs = (bf.gated_cases(ctx, beh_s[:150 * nq], bf.SHARED_BACKENDS, fill) + bf.gated_cases(ctx, beh_i[:90 * nq], bf.INST_BACKENDS, fill))
    ncww = sum(bf.behaviour_facts(c["steps"])["cww"] for c in cs)
    nraced = sum(1 for c in cs if bf.behaviour_facts(c["steps"])["cww_raced"])
    ctx.cov["cww_ops_in_behaviours"] = ncww
    ctx.cov["behaviours_with_raced_cww"] = nraced
    if nraced < 10:
        raise vlib.Inconclusive("generator produced only %d behaviours with a raced CommitWithWorkingSet" % nraced)
    st = next((c for c in cs if c["binding"]["backend"] in ("memshared", "memviews") and
               any(s["a"] == "CAS" and s["exp"]["x"]["casok"] and not s["exp"]["x"]["noop"] for s in c["steps"][1:])), cs[0])
    ctx.binding_selftest(binary, st, bf.corrupt_root, args=["gated"])
    ctx.replay_behaviours(binary, cs, args=["gated"], critical=critical, wrap=lambda c: c, shards=4,
                          fingerprint=lambda c, r: str(r.get("fp")) if str(r.get("fp")).startswith("C21:") else "C21:" + str(r.get("fp")), timeout=3000)
    # ---------------------------------------------------------------- T
    kinds = ["CWW", "CWW", "CWW", "UpdWS", "UpdWS", "SetHead", "FF", "Commit", "Delete", "Get"]
    sc = bf.stress_cases(ctx, ctx.q(18, 96), bf.SHARED_BACKENDS, kinds, nops=6)
    r1, tr_sh = bf.run_stress(ctx, binary, sc, "stress")
    ic = bf.stress_cases(ctx, ctx.q(8, 40), bf.INST_BACKENDS, kinds, nops=6)
    r2, tr_in = bf.run_stress(ctx, binary, ic, "stress")
    pc = bf.stress_cases(ctx, ctx.q(3, 16), ["procs"], kinds, clients=("A", "B"), nops=ctx.q(6, 8), mode="procs")
    r3, tr_pr = bf.run_stress(ctx, binary, pc, "procs")
    ctx.cov["cww_ops_inspected_in_stress"] = sum(int(r.get("cww", 0)) for r in r1 + r2 + r3 if r.get("ok"))
    bf.validate_traces(ctx, tr_sh, "c20_trace_shared.cfg", "goroutines/shared store")
    bf.validate_traces(ctx, tr_in, "c20_trace_inst.cfg", "goroutines/one store instance per client")
    bf.validate_traces(ctx, tr_pr, "c20_trace_inst.cfg", "2 OS processes on one file store")
    # ---------------------------------------------------------------- crash cuts
    cc = bf.stress_cases(ctx, ctx.q(3, 12), ["journal"], ["CWW", "CWW", "CWW", "UpdWS", "SetHead", "FF", "Commit"], nops=8, mode="crash",
                         cuts=ctx.q(50, 250))
    r4, _ = bf.run_stress(ctx, binary, cc, "crash")
    cuts = sum(int(r.get("cuts", 0)) for r in r4 if r.get("ok"))
    ctx.cov["crash_cuts_checked"] = cuts
    ctx.cov["crash_cuts_unopenable"] = sum(int(r.get("cuts_skipped", 0)) for r in r4 if r.get("ok"))
    ctx.cov["evaluations"] += cuts
    if cuts == 0:
        raise vlib.Inconclusive("no journal cut could be checked")
