"""C06 - table files and archives round-trip any chunk set.  Spec: spec/TableFile.tla (a file = format + bag of
addresses; Write collapses duplicate writes, Conjoin is a bag union that keeps and counts duplicates, ToArchive re-streams
the records of a file into a new archive).  Engine: inpkg/store/nbs/chunkstore, mode tablefile.
TLC enumerates EXHAUSTIVELY every ordered pair (non-empty subset of the addresses, format) x (subset, format), writes both
files, conjoins them and streams the result into an archive, checking the algebra (RoundTrip) on the way; every such
behaviour is replayed on memTable.write+tableWriter / ArchiveStreamWriter / conjoinTables (planTableConjoin,
planArchiveConjoin incl. mixed) / fileTableReader / archiveChunkSource with forged addresses sharing 8-byte prefixes,
and every file written so far is probed after every step through has, hasMany, get, getMany, getManyCompressed,
iterateAllChunks, count, uncompressedLen, index().chunkCount and currentSize, for every address, never-written
neighbours and filler chunks.  A second, simulated batch drives longer chains (conjoin of conjoins, duplicate / rotated /
descending write orders, 1100-chunk fillers so that archives take the dictionary path)."""
import importlib.util
import os

LEVEL = "model_checking"
_spec = importlib.util.spec_from_file_location("_ba", os.path.join(os.path.dirname(__file__), "_ba.py"))
ba = importlib.util.module_from_spec(_spec)
_spec.loader.exec_module(ba)

ENV = {"VERIF_MODE": "tablefile"}
MODES = ["collide", "dense", "edge", "random", "real"]


def mk_cases(ctx, behaviours, units, filler, subsets, mmap_every=0):
    cases = []
    for i, b in enumerate(behaviours):
        bd = {"seed": ctx.seed * 100 + i % 11 + 1, "mode": MODES[i % len(MODES)], "unit": units[i % len(units)], "backend": "file",
              "filler": filler(i), "subsets": subsets, "mmap": bool(mmap_every and i % mmap_every == 0)}
        cases.append({"steps": b, "binding": bd, "key": [bd["mode"], bd["unit"], bd["filler"]]})
    return cases


def corrupt(c):
    st = c["steps"][-1]
    f = st["exp"][-1]
    f["count"] = f["count"] + 1
    return c


def run(ctx):
    binary = ba.build(ctx)
    if ctx.replay:
        ba.replay_file(ctx, binary, "C06", ENV)
        return
    pairs, pres = ba.tlc_enumerate(ctx, "TableFile.tla", ctx.q("c06_pair_quick.cfg", "c06_pair_thorough.cfg"), timeout=ctx.q(7000, 14000))
    naddr = ctx.q(5, 6)
    shapes = 1
    expected = ((2 ** naddr - 1) * shapes * 2) ** 2
    if len(pairs) != expected:
        raise ba.vlib.Inconclusive("enumeration incomplete: %d behaviours, expected %d" % (len(pairs), expected))
    free = ctx.tlc_behaviours("TableFile.tla", ctx.q("c06_free_quick.cfg", "c06_free_thorough.cfg"),
                              num=ctx.q(160, 500), depth=ctx.q(7, 9), timeout=ctx.q(7000, 14000))
    ba.require_actions(free, ["Write", "Conjoin", "ToArchive"], "c06 free")
    cases = mk_cases(ctx, pairs, ctx.q([1, 64, 700], [1, 64, 700, 100000]), lambda i: 0, subsets=ctx.q(5, 10), mmap_every=7)
    ncap = ctx.q(24, 100)
    cases += mk_cases(ctx, free, ctx.q([1, 64, 4096], [1, 64, 4096, 200000]),
                      lambda i: 2200 if i < ncap else 0, subsets=ctx.q(5, 10), mmap_every=5)
    ctx.cov["exhaustive"] = True
    ctx.cov["space"] = ("all ordered pairs ((S1, f1), (S2, f2)), S non-empty subset of %d addresses%s, f in {table, archive}: write both, conjoin, "
                        "stream into an archive = %d behaviours (plus %d simulated longer chains, not exhaustive)"
                        % (naddr, " in ascending and in duplicated write order" if shapes == 2 else "", expected, len(free)))
    ctx.cov["rule"] = ("evaluations = comparisons of one chunkSource API result with the TLC-computed value, for every file of the behaviour after every step; "
                       "non-trivial = behaviour in which an archive took the dictionary path (>= 1000 chunks), or duplicates were written, or tables and archives "
                       "were conjoined together; distinct = by action sequence and binding key")
    ctx.assumptions += [
        "addresses are forged (shared 8-byte prefixes, neighbours prefix+-1, extremes of the prefix space) except under the 'real' binding; archive deliveries are matched by content hash",
        "ArchiveStreamWriter is fed each address once (duplicate AddChunk is an explicit error, ErrDuplicateChunkWritten; every caller de-duplicates first)",
        "zero-length chunks are not written (tableWriter.addChunk panics on them by contract)",
        "the byte layout itself is not specified: a format change that still round-trips is accepted",
    ]
    ctx.binding_selftest(binary, cases[1], corrupt, test_run=ba.TEST, env=ENV)
    res = ctx.replay_behaviours(binary, cases, wrap=lambda c: c, test_run=ba.TEST, env=ENV, fingerprint=ba.fp_of("C06"),
                                critical=lambda c, r: r.get("dict", 0) > 0 or r.get("dup", 0) > 0 or r.get("mixed", 0) > 0,
                                timeout=ctx.q(7000, 14000))
    ba.check_hangs(ctx, res)
    # auxiliary, outside the TLA+ conformance: the interpolation search under archiveReader.findIndex against its
    # documented contract, for every sorted slice of length <= 6/7 over dense and extreme prefix values
    probes = [{"domain": ["0", "1", "2", "3", "4", "7fffffffffffffff", "8000000000000000", "fffffffffffffffe", "ffffffffffffffff"], "maxlen": ctx.q(5, 6)},
              {"domain": ["a0000000000000", "a0000000000001", "a0000000000002", "a0000000000005", "b000000000000000", "b000000000000001"], "maxlen": ctx.q(6, 7)}]
    pr = ctx.run_engine(binary, [], probes, shards=1, test_run=ba.TEST, env={"VERIF_MODE": "binsearch"})
    for c, r in zip(probes, pr):
        if not r.get("ok"):
            ctx.violation("C06:" + str(r.get("fp")), r.get("detail", ""), {"case": c, "result": r, "reproduced": True})
    ctx.cov["aux_prollyBinSearch_comparisons"] = sum(int(r.get("evals", 0)) for r in pr)
    ctx.cov["files_written"] = sum(int(r.get("files", 0)) for r in res if r.get("ok"))
    ctx.cov["archives_with_dictionary"] = sum(int(r.get("dict", 0)) for r in res if r.get("ok"))
