"""Helpers of builder bO (C17, C26)."""
import copy
import json
import re


def printed_json(out):
    """JSON documents printed by TLC through PrintT(ToJson(...)): one quoted JSON string per line."""
    res = []
    for line in out.splitlines():
        if line.startswith('"{') or line.startswith('"['):
            try:
                res.append(json.loads(json.loads(line)))
            except Exception:
                continue
    return res


def is_known(ctx, fp):
    return known_variant(ctx, fp) is not None


def known_variant(ctx, fp):
    """fp itself, or fp without the ':hugestr' marker (the marker only matters to the findings that name it), if an open known finding matches."""
    for v in (fp, fp.replace(":hugestr", "")):
        if any(k.get("status", "open") == "open" and re.search(k["fingerprint"], v) for k in ctx.known):
            return v
    return None


def trim_case(c, m):
    """Smallest case that still contains the failing step(s) of mismatch m."""
    c = copy.deepcopy(c)
    c.pop("n", None)
    if c.get("mode") == "fan":
        steps = m.get("steps") or [m.get("step", 0)]
        ne = len(c.get("edits") or [])
        edits, lookups = [], []
        for s in steps[:3]:
            if 1 <= s <= ne:
                edits.append(c["edits"][s - 1])
            elif s > ne and s - ne <= len(c.get("lookups") or []):
                lookups.append(c["lookups"][s - ne - 1])
        if edits or lookups:
            c["edits"], c["lookups"] = edits, lookups
    elif c.get("mode") == "chain":
        s = m.get("step", len(c["steps"]) - 1)
        c["steps"] = c["steps"][:s + 1]
    return c
