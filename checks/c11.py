"""C11 - prolly maps behave as sorted dictionaries.  Spec: spec/SortedMap.tla.  Engine: harness/prolly (mode map).
TLC (exhaustive, bounded) checks that every read operator of the spec is a consistent view of the dictionary;
TLC (simulation) emits behaviours whose every step carries the expected projection and query answers; the
engine replays them on prolly.MutableMap / prolly.Map under several bindings (filler sizes, payload sizes)."""
LEVEL = "model_checking"

BINDINGS_Q = [{"filler": 0, "paysz": 0}, {"filler": 40, "paysz": 30}, {"filler": 700, "paysz": 200},
              {"filler": 900, "paysz": 100, "noabove": True}, {"filler": 500, "paysz": 60, "noabove": True, "alignlast": True, "lastgap": 5},
              {"filler": 400, "paysz": 40, "keypad": 900}]
BINDINGS_T = BINDINGS_Q + [{"filler": 6000, "paysz": 60}, {"filler": 150, "paysz": 3000}]


def consts(ctx):
    return ({"F1": [0, 1], "F2": [0, 1]} if ctx.tier == "quick" else {"F1": [0, 1, 2], "F2": [0, 1]})


def cases(ctx, behaviours, bindings):
    out = []
    k = consts(ctx)
    for i, b in enumerate(behaviours):
        bd = dict(bindings[i % len(bindings)])
        bd["seed"] = ctx.seed * 31 + (i % 5)
        out.append({"steps": b, "binding": bd, "F1": k["F1"], "F2": k["F2"], "key": bd})
    return out


def critical(c, r):
    # non-trivial: at least one automatic flush and one revert happened, or a query step on a multi-level tree
    return (r.get("flushes", 0) > 0 and r.get("reverts", 0) > 0) or r.get("height", 0) > 1


def run(ctx):
    if ctx.replay:
        import json
        rp = json.load(open(ctx.replay))
        binary = ctx.build_engine("prolly")
        res = ctx.run_engine(binary, ["map"], [rp["case"]], shards=1)[0]
        print(json.dumps(res, indent=1)[:4000])
        if not res.get("ok"):
            ctx.violation(res.get("fp", "mismatch"), res.get("detail", ""), {"case": rp["case"], "result": res, "reproduced": True})
        return
    binary = ctx.build_engine("prolly")
    ctx.tlc_check("SortedMap.tla", ctx.q("c11_exh_quick.cfg", "c11_exh_thorough.cfg"))
    beh = ctx.tlc_behaviours("SortedMap.tla", ctx.q("c11_sim_quick.cfg", "c11_sim_thorough.cfg"),
                             num=ctx.q(600, 8000), depth=ctx.q(14, 24))
    cs = cases(ctx, beh, ctx.q(BINDINGS_Q, BINDINGS_T))
    ctx.cov["rule"] = ("behaviours = TLC simulation of SortedMap.tla (Put/Delete/Checkpoint/Revert/GCFlush + query steps), each "
                       "replayed step-by-step on prolly.MutableMap and its materialised prolly.Map under a binding "
                       "(filler rows, payload sizes); non-trivial = behaviour with an automatic flush and a revert, or run on a tree of height > 1; "
                       "distinct = by hash of the action sequence and binding")
    ctx.assumptions += ["keys are pairs of int64, values (int64, bytes); other tuple encodings are not driven (C15 is n/a)",
                        "Revert is only issued after at least one Checkpoint"]
    def corrupt(c):
        # flip one expected value in the last step's dictionary
        g = c["steps"][-1]["exp"]["get"]
        g[0] = 1 if g[0] != 1 else 2
        return c
    ctx.binding_selftest(binary, cs[0], corrupt, args=["map"], env={"VERIF_ONLY": "c11"})
    ctx.replay_behaviours(binary, [c for c in cs], args=["map"], critical=critical, wrap=lambda c: c, env={"VERIF_ONLY": "c11"},
                          fingerprint=lambda c, r: "C11:" + str(r.get("fp")))
