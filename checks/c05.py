"""C05 - the manifest is replaced atomically and never names a missing table file; pruning never unlinks
referenced files.  Specs: spec/ManifestFS.tla (POSIX directory with volatile/durable dirents; table landing, the step
order of fileManifest.Update/updateWithChecker, conjoin cleanup, GC swap + PruneTableFiles, Crash), spec/Prune.tla
(grace pruner of another process: probe, scan, quiescence, LockManifest, mtime re-check, re-stat + unlink, clock),
spec/TraceManifestFS.tla.  Engine: inpkg/store/nbs/manifestfs.

1. TLC exhaustive: ManifestNamesOnlyExistingFiles (running system and every crash image), ManifestIsOldOrNew,
   PruneNeverUnlinksReferenced, with and without the grace assumption.
2. S: sequential scenarios (commit, AddTableFilesToManifest, conjoin, GC swap + PruneTableFiles, reopen; two stores)
   run under strace; the syscalls on the directory are validated step by step against TraceManifestFS.tla (order of
   lock / temp write / fsync / read upstream / stat of new specs / rename / directory fsync / unlock, table landing
   before the manifest that names it, content of the temp manifest, which files are unlinked, directory after each
   operation).  Crash images: for every event prefix and every number of surviving pending directory operations the
   directory is rebuilt (unsynced data truncated) and opened with the real code; the manifest found must be one of
   the images TLC computed for that point and every chunk it promises must be readable.
3. G: interleavings of a writer (landing, manifest update) with the grace pruner from Prune.tla replayed with the
   repo's _testPruneAfterSnapshotHook/_testPruneUnderLockHook and gates on the manifest interface."""
import importlib.util
import json
import os
import shutil
import subprocess

LEVEL = "model_checking"
_spec = importlib.util.spec_from_file_location("_bb", os.path.join(os.path.dirname(__file__), "_bb.py"))
bb = importlib.util.module_from_spec(_spec)
_spec.loader.exec_module(bb)
vlib = bb.vlib

ENGINE = ("store/nbs", "manifestfs")
ADDRS = ["a1", "a2", "a3", "a4", "a5"]
STRACE = ["strace", "-f", "-y", "-s", "4000", "-e",
          "trace=openat,write,fsync,fdatasync,renameat,renameat2,rename,unlinkat,unlink,flock,newfstatat,statx"]


# ---------------------------------------------------------------------------------------------- scenarios
def gen_scenario(rng, nops):
    """A sequential scenario that keeps track of which chunks are stored so that every operation has work to do."""
    tables = []          # model tables currently in the manifest
    ops = []
    for _ in range(nops):
        w = rng.choice(["w1", "w2"])
        present = sorted(set(a for t in tables for a in t))
        absent = [a for a in ADDRS if a not in present]
        choices = []
        if absent:
            choices += ["commit", "addfile", "addfile"]
        if len(tables) >= 2:
            choices += ["conjoin", "conjoin"]
        if len(present) >= 2:
            choices += ["gc"]
        choices += ["reopen"] if ops else []
        if not choices:
            choices = ["reopen"]
        k = rng.choice(choices)
        if k == "commit":
            n = rng.randint(1, min(2, len(absent)))
            new = rng.sample(absent, n)
            ops.append({"w": w, "op": "commit", "addrs": new})
            tables.append(tuple(sorted(new)))
        elif k == "addfile":
            n = rng.randint(1, min(2, len(absent)))
            new = rng.sample(absent, n)
            t = tuple(sorted(set(new)))
            ops.append({"w": w, "op": "addfile", "addrs": list(t)})
            tables.append(t)
        elif k == "conjoin":
            ops.append({"w": w, "op": "conjoin"})
            tables = [tuple(sorted(set(a for t in tables for a in t)))]
        elif k == "gc":
            n = rng.randint(1, len(present) - 1)
            keep = tuple(sorted(rng.sample(present, n)))
            if keep in tables:
                ops.append({"w": w, "op": "reopen"})
                continue
            ops.append({"w": w, "op": "gc", "addrs": list(keep)})
            tables = [keep]
        else:
            ops.append({"w": w, "op": "reopen"})
    return ops


def run_scenario(ctx, binary, k, ops, seed):
    base = os.path.join(ctx.work, "s-%d" % k)
    d, side = os.path.join(base, "dir"), os.path.join(base, "side")
    os.makedirs(d)
    os.makedirs(side)
    sc = {"dir": d, "side": side, "seed": seed, "addrs": ADDRS, "writers": ["w1", "w2"], "ops": ops}
    env = vlib.go_env()
    env.update(VERIF_SCENARIO=json.dumps(sc), VERIF_MARK=os.path.join(base, "marks"))
    log = os.path.join(base, "strace.log")
    cmd = STRACE + ["-o", log, binary, "-test.run", "^TestVerifManifestFSScenario$", "-test.count", "1", "-test.timeout", "0"]
    try:
        p = subprocess.run(cmd, env=env, stdout=subprocess.PIPE, stderr=subprocess.STDOUT, text=True, timeout=600, cwd=base)
    except subprocess.TimeoutExpired:
        raise vlib.Inconclusive("scenario under strace timed out")
    if "VERIF_SCENARIO_OK" not in p.stdout:
        raise vlib.Inconclusive("scenario did not complete under strace:\n" + p.stdout[-2000:])
    raw = bb.parse_strace(log, d)
    events, tables = bb.intern_events(raw)
    return {"base": base, "dir": d, "side": side, "events": events, "tables": tables, "ops": ops}


def strip(e):
    return {k: v for k, v in e.items() if k not in ("payload", "name", "op")}


# ---------------------------------------------------------------------------------------------- crash images
def build_images(sc, upto=None):
    """Replay the events onto a shadow model of the directory: after every event, for every number j of surviving
    pending directory operations, the directory a crash would leave (DESIGN 3.3: ordered dirents, unsynced data lost).
    Yields (l, j, files) with files = {name: bytes}."""
    side = sc["side"]

    def content(f):
        if f["kind"] == "table":
            data = open(os.path.join(side, f["name"]), "rb").read()
        else:
            data = f["payload"].encode("latin-1", "replace")
        return data if f["synced"] else data[:len(data) // 2]
    ddir, vdir, pend = {}, {}, []
    cur_t, cur_m = None, None
    tmpn = 0

    def apply(dirn, op):
        dn = dict(dirn)
        if op[0] == "create":
            dn[op[1]] = op[2]
        elif op[0] == "rename":
            if op[1] in dn:
                dn[op[2]] = dn.pop(op[1])
        elif op[0] == "unlink":
            dn.pop(op[1], None)
        return dn
    tmp2name = {}
    evs = sc["events"]
    # final names of landed temps, in order
    names = [e["name"] for e in evs if e["ev"] == "trename"]
    ni = 0
    for l, e in enumerate(evs, 1):
        ev = e["ev"]
        ops = []
        if ev == "tcreate":
            tmpn += 1
            cur_t = {"kind": "table", "name": names[ni], "synced": False}
            ops = [("create", "nbs_table_%d" % tmpn, cur_t)]
            cur_tn = "nbs_table_%d" % tmpn
        elif ev == "tsync":
            cur_t["synced"] = True
        elif ev == "trename":
            ops = [("rename", cur_tn, e["name"])]
            ni += 1
        elif ev == "mwrite":
            tmpn += 1
            cur_m = {"kind": "manifest", "payload": e["payload"], "synced": False}
            cur_mn = "nbs_manifest_%d" % tmpn
            ops = [("create", cur_mn, cur_m)]
        elif ev == "msync":
            cur_m["synced"] = True
        elif ev == "mrename":
            ops = [("rename", cur_mn, "manifest")]
        elif ev == "munlink":
            ops = [("unlink", cur_mn)]
        elif ev == "tunlink":
            ops = [("unlink", e["name"])]
        elif ev == "dsync":
            for op in pend:
                ddir = apply(ddir, op)
            pend = []
        for op in ops:
            vdir = apply(vdir, op)
            pend.append(op)
        if upto is not None and l > upto:
            return
        for j in range(len(pend) + 1):
            dn = ddir
            for op in pend[:j]:
                dn = apply(dn, op)
            yield l, j, len(pend), {n: content(f) for n, f in dn.items()}


def parse_crashimgs(out):
    imgs = {}
    for line in out.splitlines():
        if line.startswith('"CRASHIMGS '):
            s = json.loads(line)
            _, l, js = s.split(" ", 2)
            imgs[int(l)] = json.loads(js)
    return imgs


def check_images(ctx, binary, sc, model_imgs, every):
    cases, meta = [], []
    root = os.path.join(sc["base"], "img")
    name2t = {n: tuple(sorted(v)) for n, v in sc["tables"].items()}
    for l, j, npend, files in build_images(sc):
        if l % every and j not in (0, npend):
            continue
        if l not in model_imgs:
            continue
        d = os.path.join(root, "%d-%d" % (l, j))
        os.makedirs(d)
        for n, data in files.items():
            with open(os.path.join(d, n), "wb") as f:
                f.write(data)
        cases.append({"mode": "image", "dir": d})
        meta.append((l, j, npend, sorted(files)))
    if not cases:
        return 0
    res = ctx.run_engine(binary, [], cases, test_run="TestVerifManifestFSImage", shards=min(8, max(1, len(cases) // 20)))
    n = 0
    for c, r, (l, j, npend, names) in zip(cases, res, meta):
        if r.get("skipped"):
            continue
        if r.get("crash") or not r.get("ok"):
            raise vlib.Inconclusive("image opener failed: " + str(r)[:500])
        ctx.cov["evaluations"] += 1
        n += 1
        mi = model_imgs[l]
        if len(mi) != npend + 1:
            note = ("inside an unlink group (conjoin cleanup / PruneTableFiles) the model unlinks all files in one step, the code one by one: "
                    "pending-operation counts differ there and crash images are compared by membership")
            if note not in ctx.notes:
                ctx.notes.append(note)
        expect = set()
        for img in mi:
            m = img["man"]
            expect.add(("none",) if not m["ex"] else tuple(sorted(tuple(sorted(t)) for t in m["specs"])) if m["ok"] else ("junk",))
        problem = None
        if r.get("manifest_error") or r.get("open_error") or r.get("read_error"):
            problem = "crash image does not open: " + str(r.get("manifest_error") or r.get("open_error") or r.get("read_error"))
        else:
            got = ("none",) if not r["manifest_exists"] else tuple(sorted(name2t.get(n_, ("?" + n_,)) for n_ in r["specs"]))
            if got not in expect:
                problem = "crash image holds a manifest the specification does not allow at this point: %s, allowed %s" % (got, sorted(expect))
            elif r["manifest_exists"] and r["chunks"] != len(set(a for t in got for a in t)):
                problem = "crash image: manifest promises %d distinct chunks, %d readable" % (len(set(a for t in got for a in t)), r["chunks"])
        if problem:
            ev = sc["events"][l - 1]["ev"]
            ctx.violation("C05:S:crash-image:after-%s:%s" % (ev, problem.split(":")[1].strip()[:40]),
                          "%s (after event %d '%s', %d of %d pending directory operations survive; files %s)" % (problem, l, ev, j, npend, names),
                          {"kind": "image", "scenario": {"ops": sc["ops"]}, "l": l, "j": j, "result": r, "reproduced": True})
            return n
    return n


def validate(ctx, sc, tag):
    trace = [strip(e) for e in sc["events"]]
    if any(e["ev"].startswith("unexpected") for e in trace):
        bad = next(e for e in trace if e["ev"].startswith("unexpected"))
        return False, 0, len(trace), "", bad
    acc, matched, total, out = bb.validate_one(ctx, "TraceManifestFS.tla", "c05_trace.cfg", trace, tag=tag)
    return acc, matched, total, out, (trace[matched] if matched < len(trace) else {})


def run_s(ctx, binary):
    n = ctx.q(3, 12)
    nontriv = 0
    for k in range(n):
        ops = gen_scenario(ctx.rng, ctx.q(7, 10))
        sc = run_scenario(ctx, binary, k, ops, ctx.seed * 100 + k)
        acc, matched, total, out, ev = validate(ctx, sc, "s%d" % k)
        g, dst = bb.tlc_states(out)
        if not acc:
            if "TRACE_MATCHED" not in out and total:
                raise vlib.Inconclusive("trace validation did not run:\n" + out[-3000:])
            # reproduce: run the same scenario again
            sc2 = run_scenario(ctx, binary, 1000 + k, ops, ctx.seed * 100 + k)
            acc2, m2, t2, out2, ev2 = validate(ctx, sc2, "s%dr" % k)
            if acc2:
                ctx.notes.append("syscall trace rejected once, accepted when the scenario was repeated (ignored)")
                continue
            around = [strip(e) for e in sc2["events"][max(0, m2 - 6):m2 + 2]]
            ctx.violation("C05:S:order:%s" % ev2.get("ev"),
                          "the syscalls of the store are not a behaviour of ManifestFS.tla: after %d of %d events the specification cannot take %s; "
                          "preceding events %s" % (m2, t2, json.dumps(ev2), json.dumps(around)),
                          {"kind": "scenario", "ops": ops, "seed": ctx.seed * 100 + k, "events": [strip(e) for e in sc2["events"]], "reproduced": True})
            return
        ctx.cov["traces_validated_against_impl"] += 1
        ctx.cov["evaluations"] += total
        kinds = set(o["op"] for o in ops)
        if len(kinds) >= 3:
            ctx.nontrivial("S:" + bb.action_key([{"a": json.dumps(o, sort_keys=True)} for o in ops]))
        ctx.sample({"scenario": ops, "first_events": [strip(e) for e in sc["events"][:16]]}, limit=2)
        imgs = parse_crashimgs(out)
        ni = check_images(ctx, binary, sc, imgs, every=ctx.q(3, 1))
        ctx.cov["crash_images_opened"] = ctx.cov.get("crash_images_opened", 0) + ni
        if ctx.violations:
            return
        if k == 0:
            # binding self-test: swap the directory fsync and the rename of the first manifest update, and drop a stat
            t = [strip(e) for e in sc["events"]]
            i = next(i for i, e in enumerate(t) if e["ev"] == "mrename")
            t2 = list(t)
            t2[i], t2[i - 1] = t2[i - 1], t2[i]
            a1, m1, _, _ = bb.validate_one(ctx, "TraceManifestFS.tla", "c05_trace.cfg", t2, tag="selfA")
            j = max(i2 for i2, e in enumerate(t[:i]) if e["ev"] == "msync")
            t3 = t[:j] + t[j + 1:]
            a2, m2, _, _ = bb.validate_one(ctx, "TraceManifestFS.tla", "c05_trace.cfg", t3, tag="selfB")
            if a1 or a2:
                raise vlib.Inconclusive("binding self-test failed: a reordered / incomplete syscall trace was accepted")
            ctx.cov["binding_selftest_trace"] = "trace with rename moved before the preceding step rejected at %d; trace without fsync of the temp manifest rejected at %d" % (m1, m2)
        shutil.rmtree(sc["base"], ignore_errors=True)


def run(ctx):
    binary = ctx.build_inpkg(*ENGINE)
    if ctx.replay:
        rp = json.load(open(ctx.replay))
        if rp.get("kind") in ("scenario", "image"):
            ops = rp.get("ops") or rp["scenario"]["ops"]
            sc = run_scenario(ctx, binary, 0, ops, rp.get("seed", ctx.seed))
            acc, matched, total, out, ev = validate(ctx, sc, "rp")
            print("syscall trace re-validated: accepted=%s matched=%d/%d" % (acc, matched, total))
            if not acc:
                ctx.violation(rp.get("fingerprint", "C05:S"), "cannot take " + json.dumps(ev), {"kind": "scenario", "ops": ops, "reproduced": True})
            else:
                check_images(ctx, binary, sc, parse_crashimgs(out), every=1)
        else:
            run_g_replay(ctx, binary, rp)
        return
    skip_exh = os.environ.get("VERIF_BB_SKIP_EXH") == "1"   # developer switch for mutation runs only (evidence then has no states)
    if not skip_exh:
        ctx.tlc_check("ManifestFS.tla", "c05_fs_quick.cfg", timeout=3000)
        ctx.tlc_check("Prune.tla", "c05_prune_quick.cfg", timeout=3000)
        ctx.tlc_check("Prune.tla", "c05_prunegrace_quick.cfg", timeout=3000)
    if ctx.tier == "thorough" and not skip_exh:
        ctx.tlc_check("ManifestFS.tla", "c05_fs_thorough_a.cfg", timeout=2400, heap="12g")
        ctx.tlc_check("ManifestFS.tla", "c05_fs_thorough_b.cfg", timeout=2400, heap="12g")
        ctx.tlc_check("Prune.tla", "c05_prune_thorough.cfg", timeout=2400, heap="12g")
    ctx.cov["rule"] = (
        "S: random sequential scenarios over two stores (commit, add table file, conjoin, GC swap + PruneTableFiles, reopen) run under "
        "strace; every directory syscall is an event validated by TraceManifestFS.tla; evaluations = events matched + crash images "
        "opened; non-trivial = scenario with at least 3 kinds of operation; crash images = every (event prefix, surviving pending dirent "
        "operations) directory, opened with the real code and compared with the images TLC computed for that point. "
        "G: TLC-generated interleavings of writer and grace pruner replayed with gates")
    ctx.assumptions += [
        "file-system model of DESIGN 3.3: file data durable only after fsync of the file; directory operations of one directory become durable "
        "in order, all of them at fsync of the directory (the code itself relies on this: table files are renamed into place without a "
        "directory fsync). With unordered dirents TLC finds the expected counterexample (manifest durable, table dirent lost) - informational",
        "PruneTableFiles (full prune after GC) is only modelled for the store that is the only active writer; with a foreign writer process it "
        "can unlink a landed-but-unpublished table between checkNewSpecsPresent and the rename (TLC counterexample with "
        "FullPruneWithForeignWriters=TRUE) - outside the statement (GC holds exclusive access)",
        "the scan of the pruner is atomic in the model; mtimes are integer ticks",
    ]
    only = os.environ.get("VERIF_BB_ONLY", "")      # developer switch for mutation runs: "s" or "g"
    if only != "g":
        run_s(ctx, binary)
    if not ctx.violations and only != "s":
        run_g(ctx, binary)


G_CRITICAL = ("PUnlink", "UpdAbort", "UpdLockTimeout")


def g_cases(ctx, beh):
    out = []
    for k, b in enumerate(beh):
        out.append({"mode": "g", "steps": b, "cfg": {"seed": ctx.seed * 17 + k % 5, "addrs": ["a1", "a2"], "grace": 2}})
    return out


def run_g(ctx, binary):
    beh = ctx.tlc_behaviours("Prune.tla", "c05_prune_gen.cfg", num=ctx.q(120, 600), depth=60)
    hist = bb.histogram(beh)
    ctx.cov["g_action_histogram"] = dict(hist)
    for a in ("LandCreate", "UpdRead", "UpdLock", "UpdReadUpstream", "UpdRename", "UpdUnlock", "PProbe", "PScan", "PQuiesce", "PLock",
              "PRecheck", "PPick", "PUnlink", "PUnlock", "PReleaseProbe", "Tick"):
        if hist.get(a, 0) == 0:
            raise vlib.Inconclusive("generator: action %s never occurs in the behaviours" % a)
    cases = g_cases(ctx, beh)

    def corrupt(c):
        # one table file more/less expected after the last compared step
        for s in reversed(c["steps"]):
            f = s["exp"]["files"]
            if ["a1"] in f:
                f.remove(["a1"])
            else:
                f.append(["a1"])
        return c
    ctx.binding_selftest(binary, cases[0], corrupt, test_run="TestVerifManifestFS")
    ctx.replay_behaviours(binary, cases, critical=lambda c, r: any(s["a"] in G_CRITICAL for s in c["steps"]), timeout=4 * 3600,
                          test_run="TestVerifManifestFS", wrap=lambda c: c, fingerprint=lambda c, r: "C05:G:" + str(r.get("fp")))
    stuck = [v for v in ctx.violations if "goroutine did not reach a gate" in v[1]]
    if stuck:
        ctx.violations = [v for v in ctx.violations if v not in stuck]
        if not ctx.violations:
            raise vlib.Inconclusive("a gated goroutine made no progress within the step timeout (timing; not a verdict)")
    ctx.cov["g_behaviours"] = len(cases)
    ctx.cov["g_behaviours_with_unlink_or_abort"] = sum(1 for c in cases if any(s["a"] in G_CRITICAL for s in c["steps"]))


def run_g_replay(ctx, binary, rp):
    res = ctx.run_engine(binary, [], [rp["case"]], shards=1, test_run="TestVerifManifestFS")[0]
    print(json.dumps(res, indent=1)[:4000])
    if not res.get("ok"):
        ctx.violation("C05:G:" + str(res.get("fp")), res.get("detail", ""), {"case": rp["case"], "result": res, "reproduced": True})
