"""C42 - blobstores provide a correct conditional manifest update and byte ranges.
Spec: spec/Blobstore.tla, spec/TraceBlobstore.tla.  Engine: harness/blobstore.

1. TLC (exhaustive, bounded): clients running  read version ; CheckAndPut(version)  against the manifest register - atomic
   (inmem, git push-with-lease), in the steps of LocalBlobstore's lock protocol, and with version = contents (git): CASChain,
   AtMostOneWinnerPerVersion, RegisterIsLastWrite; BlobRange: RangeIsSlice / RangesCompose over every (size, offset, length).
2. R: TLC enumerates every (size <= 6, offset -7..7, length 0..8) with the expected interval; the engine reads each range at
   unit 1 and 4096 bytes from InMemory / Local / Git (inline and chunked-tree) blobstores, through the writing object and
   through a second object on the same storage, plus Concatenate of every triple of source sizes 0..2.
3. T: goroutines (shared object and one object each) and OS processes (local) race the protocol on each backend; the
   call/return logs are validated by TraceBlobstore.tla (TLC searches a linearization; versions the implementation chose are
   taken from the log).  A corrupted log must be rejected (binding self-test).
4. smoke: nbs.NewBSStore on each backend (chunks, commit, stale commit, reopen)."""
import copy
import importlib.util
import json
import os

LEVEL = "model_checking"
_spec = importlib.util.spec_from_file_location("_bn", os.path.join(os.path.dirname(__file__), "_bn.py"))
bn = importlib.util.module_from_spec(_spec)
_spec.loader.exec_module(bn)

MOD = "Blobstore.tla"


def inconclusive(msg):
    import vlib
    raise vlib.Inconclusive(msg)


def fp(c, r):
    return "C42:" + str(r.get("fp"))


def write_trace(ctx, traces, name):
    p = os.path.join(ctx.work, name)
    with open(p, "w") as f:
        first = True
        for t in traces:
            if not first:
                f.write(json.dumps({"ev": "reset"}) + "\n")
            first = False
            for e in t:
                f.write(json.dumps(e) + "\n")
    return p


def validate(ctx, traces, mode, name):
    """returns (accepted, index of the first rejected trace or None)"""
    if not traces:
        return True, None
    p = write_trace(ctx, traces, name)
    acc, matched, total, out = ctx.tlc_trace_validate("TraceBlobstore.tla", "c42_trace_%s.cfg" % mode, p, timeout=ctx.q(1800, 14000))
    if matched < 0:
        inconclusive("trace validation did not run: " + out[-1500:])
    if acc:
        return True, None
    # locate the trace holding line matched+1
    pos = 0
    for i, t in enumerate(traces):
        n = len(t) + (1 if i > 0 else 0)
        if matched < pos + n:
            return False, i
        pos += n
    return False, len(traces) - 1


def run(ctx):
    binary = ctx.build_engine("blobstore")
    if ctx.replay:
        rp = bn.load_replay(ctx.replay)
        if "trace" in rp:
            ok, _ = validate(ctx, [rp["trace"]], rp["mode"], "replay.ndjson")
            print("trace accepted" if ok else "trace rejected")
            if not ok:
                ctx.violation(rp["fingerprint"], rp.get("what", ""), {"trace": rp["trace"], "mode": rp["mode"], "case": rp.get("case"), "reproduced": True})
            return
        case = rp["case"]
        res = ctx.run_engine(binary, [case.get("mode", "ranges")], [case], shards=1)[0]
        print(json.dumps(res, indent=1)[:4000])
        if not res.get("ok"):
            ctx.violation(fp(None, res), res.get("detail", ""), {"case": case, "result": res, "reproduced": True})
        return

    ctx.assumptions += [
        "versions returned by a backend identify a write: uuid (inmem), mtime of the renamed file with the 10 ms sleep of LocalBlobstore.Put "
        "(a monotonic clock with a resolution finer than 10 ms is assumed), git blob id of the contents (contents written by the clients are unique)",
        "ranges outside the documented domain of BlobRange (|offset| > size) are recorded, not judged: the backends answer with an error, an empty "
        "read or (InMemoryBlobstore) a slice-bounds panic",
        "the last sentence of the statement (a database on a blobstore) is only smoke-tested here; it belongs to C01/C02/C07 on NewBSStore",
    ]
    # ------------------------------------------------------------------ 1. model
    for cfg in ctx.q(["c42_cas_quick.cfg", "c42_local_quick.cfg", "c42_content_quick.cfg", "c42_blobs_quick.cfg"],
                     ["c42_cas_thorough.cfg", "c42_local_thorough.cfg", "c42_content_quick.cfg", "c42_blobs_quick.cfg"]):
        ctx.tlc_check(MOD, cfg, timeout=ctx.q(1200, 14000))
    rr = ctx.tlc_check(MOD, "c42_ranges.cfg", timeout=1800)
    docs = [d for d in bn.emitted(rr["out"]) if "ranges" in d]
    if len(docs) != 1:
        inconclusive("range space not emitted")
    ranges, concats = docs[0]["ranges"], docs[0]["concats"]
    if ctx.tier == "thorough":
        # informational: the named fault (plain Put on the manifest key) breaks the chain in the local protocol
        import vlib
        try:
            ctx.tlc_check(MOD, "c42_rogue_info.cfg", timeout=1800, record=False)
            ctx.notes.append("c42_rogue_info.cfg unexpectedly holds")
        except vlib.Inconclusive as e:
            if "CASChain is violated" in str(e):
                ctx.notes.append("model-level, informational: with the named fault RoguePut (a plain Put on the manifest key takes no lock in "
                                 "LocalBlobstore) CASChain fails; nbs never issues such a Put")
            else:
                raise

    # ------------------------------------------------------------------ 2. R: ranges and Concatenate
    def sub(sizes):
        return [r for r in ranges if r["size"] in sizes]
    cases = []
    for b in ("inmem", "local"):
        for unit in (1, 4096):
            cases.append({"mode": "ranges", "backend": b, "unit": unit, "seed": ctx.seed, "ranges": ranges, "concats": concats})
    gsz = ctx.q([0, 2, 5], list(range(7)))
    gconc = ctx.q(concats[::4], concats)
    for sz in gsz:       # one case per size: the git backend starts git processes for every read
        cases.append({"mode": "ranges", "backend": "git", "unit": 1, "seed": ctx.seed, "ranges": sub([sz]), "concats": gconc if sz == gsz[0] else []})
        cases.append({"mode": "ranges", "backend": "gitchunked", "unit": 4096, "seed": ctx.seed, "ranges": sub([sz]), "concats": gconc if sz == gsz[0] else []})
    for i, c in enumerate(cases):
        c["key"] = ["ranges", c["backend"], c["unit"], i]

    def corrupt_range(c):
        for r in c["ranges"]:
            if r["size"] >= 2 and r["lo"] >= 0 and r["hi"] > r["lo"]:
                r["hi"] -= 1
                return c
        return c
    ctx.binding_selftest(binary, cases[0], corrupt_range, args=["ranges"])
    res = ctx.replay_behaviours(binary, cases, args=["ranges"], wrap=lambda c: c, fingerprint=fp, critical=lambda c, r: True,
                                shards=min(len(cases), 8), timeout=ctx.q(3000, 14000))
    und = {}
    for c, r in zip(cases, res):
        for k, v in (r.get("undefined") or {}).items():
            und.setdefault(c["backend"], {}).setdefault(k, 0)
            und[c["backend"]][k] += v
    ctx.cov["ranges_outside_domain"] = und
    ctx.cov["range_cases"] = len(ranges)
    ctx.cov["exhaustive"] = True
    ctx.cov["space"] = ("all (size 0..6, offset -7..7, length 0..8) BlobRanges x unit {1, 4096} on inmem and local; "
                        + ("the same space on git (unit 1) and git chunked-tree (unit 4096)" if ctx.tier == "thorough"
                           else "sizes {0,2,5} of it on git (unit 1) and git chunked-tree (unit 4096)")
                        + "; Concatenate of all 27 triples of source sizes 0..2")

    # ------------------------------------------------------------------ 3. T: races
    race = []
    nseeds = ctx.q(2, 6)
    for s in range(nseeds):
        sd = ctx.seed * 100 + s
        race.append({"mode": "race", "backend": "inmem", "clients": 6, "rounds": ctx.q(10, 16), "seed": sd, "share": True})
        race.append({"mode": "race", "backend": "local", "clients": 3, "rounds": ctx.q(4, 6), "seed": sd, "share": False})
        race.append({"mode": "race", "backend": "local", "clients": 3, "rounds": ctx.q(4, 6), "seed": sd, "procs": True})
        race.append({"mode": "race", "backend": "git", "clients": 3, "rounds": 3, "seed": sd, "share": False})
        race.append({"mode": "race", "backend": "git", "clients": 3, "rounds": 3, "seed": sd, "share": True})
    rres = ctx.run_engine(binary, ["race"], race, shards=min(len(race), 8), timeout=ctx.q(3000, 14000))
    good = {"unique": [], "content": []}
    unusable = 0
    for c, r in zip(race, rres):
        if not r.get("ok"):
            inconclusive("race workload failed: " + str(r.get("detail"))[:1500])
        if r.get("unusable") or not r.get("trace"):
            unusable += 1
            ctx.notes.append("race trace not usable (%s): %s" % (c["backend"], str(r.get("unusable"))[:200]))
            continue
        mode = "content" if c["backend"].startswith("git") else "unique"
        good[mode].append((c, r))
    if unusable > len(race) // 3:
        inconclusive("%d of %d race workloads produced no usable trace" % (unusable, len(race)))
    # binding self-test: a log in which a losing conditional write is reported as a win must be rejected
    pick = None
    for c, r in good["unique"]:
        if r.get("fails", 0) > 0:
            pick = (c, r)
            break
    if pick is None:
        inconclusive("no contended trace for the binding self-test")
    bad = copy.deepcopy(pick[1]["trace"])
    for e in bad:
        if e.get("op") == "cas" and e["res"]["ok"] == 0:
            e["res"] = {"ok": 1, "ver": 9999, "actual": 0}
            break
    ok, _ = validate(ctx, [bad], "unique", "selftest.ndjson")
    if ok:
        inconclusive("binding self-test failed: TraceBlobstore accepted a log with a forged winner")
    ctx.cov["binding_selftest"] = "forged winner rejected by TraceBlobstore; " + str(ctx.cov.get("binding_selftest", ""))
    for mode in ("unique", "content"):
        todo = list(good[mode])
        while todo:
            ok, idx = validate(ctx, [r["trace"] for _, r in todo], mode, "batch-%s.ndjson" % mode)
            if ok:
                for c, r in todo:
                    ctx.cov["traces_validated_against_impl"] += 1
                    ctx.cov["evaluations"] += len(r["trace"])
                    if r.get("fails", 0) > 0 and r.get("wins", 0) > 1:
                        ctx.nontrivial(json.dumps(["race", c["backend"], c["seed"], c.get("share"), c.get("procs")]))
                        ctx.sample({"case": c, "wins": r["wins"], "fails": r["fails"], "first_events": r["trace"][:8]})
                break
            # accepted prefix counts; the rejected trace is re-validated alone before it is reported
            for c, r in todo[:idx]:
                ctx.cov["traces_validated_against_impl"] += 1
                ctx.cov["evaluations"] += len(r["trace"])
            c, r = todo[idx]
            ok1, _ = validate(ctx, [r["trace"]], mode, "single.ndjson")
            if not ok1:
                ctx.violation("C42:trace:" + c["backend"], "the call/return log of %s is not a behaviour of the register (no linearization)" % json.dumps(c),
                              {"trace": r["trace"], "mode": mode, "case": c, "reproduced": True})
            todo = todo[idx + 1:]
    ctx.cov["race_workloads"] = len(race)

    # ------------------------------------------------------------------ 4. smoke
    sm = [{"mode": "smoke", "backend": b, "seed": ctx.seed, "key": ["smoke", b]} for b in ("inmem", "local", "git")]
    ctx.replay_behaviours(binary, sm, args=["smoke"], wrap=lambda c: c, fingerprint=fp, critical=lambda c, r: False, shards=3, timeout=1800)

    ctx.cov["rule"] = (
        "R: one case = one backend x unit (x blob size for git) with every range of the TLC-enumerated space read through two objects, plus Concatenate; "
        "evaluations = individual range / concatenation comparisons and trace events matched; T: one trace = the call/return log of one race workload, "
        "validated by TLC; non-trivial = a range case (all hold defined ranges) or a trace with at least one losing and two winning conditional writes; "
        "distinct by case key / workload parameters")
