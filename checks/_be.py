"""Helpers shared by checks/c18.py, c19.py, c44.py (builder bE): TLC enumeration runs of CommitGraph.tla / RefNames.tla whose
reachable states ARE the cases (every DAG / every symbol string), case construction, replay plumbing."""
import hashlib
import json
import os
import sys

sys.path.insert(0, os.path.join(os.path.dirname(os.path.dirname(os.path.abspath(__file__))), "lib"))
import vlib  # noqa: E402


def parse_cases(out):
    """JSON documents printed by PrintT(ToJson(...)) - one per line, as a quoted string."""
    cases = []
    for line in out.splitlines():
        if line.startswith('"{') or line.startswith('"['):
            try:
                cases.append(json.loads(json.loads(line)))
            except Exception:
                raise vlib.Inconclusive("unparsable case line from TLC: " + line[:200])
    return cases


def dag_count(n, maxparents):
    """number of DAGs with exactly n commits whose parent lists are sequences (duplicates allowed) of length <= maxparents
    over the earlier commits - a count of the space, used only to check that TLC printed every case"""
    total = 1
    for k in range(n):
        total *= sum(k ** j for j in range(maxparents + 1))
    return total


def cfg_constants(cfg):
    txt = open(os.path.join(vlib.VERIF, "spec", "cfg", cfg)).read()
    import re
    out = {}
    for m in re.finditer(r"^\s*(\w+)\s*=\s*(.+?)\s*$", txt, re.M):
        out[m.group(1)] = m.group(2)
    return out


def _spec_digest(cfg):
    h = hashlib.sha1()
    d = os.path.join(vlib.VERIF, "spec")
    for fn in ("CommitGraph.tla", "RefNames.tla", "AncestorSpec.tla", os.path.join("cfg", cfg)):
        h.update(open(os.path.join(d, fn), "rb").read())
    return h.hexdigest()[:16]


def cached_tlc(ctx, module, cfg, timeout, workers):
    """ctx.tlc_check, optionally memoised on disk (development aid for mutation runs against an unchanged spec; only active
    when VERIF_BE_CACHE names a directory - never in a normal run)."""
    timeout = timeout or ctx.q(3000, 20000)
    cdir = os.environ.get("VERIF_BE_CACHE")
    if not cdir:
        return ctx.tlc_check(module, cfg, timeout=timeout, workers=workers)
    os.makedirs(cdir, exist_ok=True)
    p = os.path.join(cdir, "%s-%s.json" % (cfg, _spec_digest(cfg)))
    if os.path.exists(p):
        res = json.load(open(p))
        ctx.cov["states"] += res["distinct"]
        ctx.cov["transitions"] += res["generated"]
        ctx.cov["tlc_runs"].append({k: res[k] for k in ("module", "cfg", "generated", "distinct", "depth", "wall_s")})
        ctx.log("TLC %s/%s: cached result (%d distinct)" % (module, cfg, res["distinct"]))
        return res
    res = ctx.tlc_check(module, cfg, timeout=timeout, workers=workers)
    json.dump(res, open(p, "w"))
    return res


def enumerate_dags(ctx, cfg, timeout=None, workers=None):
    """Exhaustive TLC run of CommitGraph.tla on a DAG-enumeration config; returns every DAG with exactly MaxCommits commits."""
    res = cached_tlc(ctx, "CommitGraph.tla", cfg, timeout, workers)
    k = cfg_constants(cfg)
    n, p = int(k["MaxCommits"]), int(k["MaxParents"])
    cases = parse_cases(res["out"])
    want = dag_count(n, p)
    if len(cases) != want:
        raise vlib.Inconclusive("TLC printed %d DAG cases for %s, the space has %d" % (len(cases), cfg, want))
    if len({json.dumps(c["par"]) for c in cases}) != want:
        raise vlib.Inconclusive("TLC printed duplicate DAGs for %s" % cfg)
    ctx.log("%s: all %d DAGs with %d commits and <= %d parents" % (cfg, want, n, p))
    return cases, {"commits": n, "max_parents": p, "dags": want}


def enumerate_names(ctx, cfg, timeout=None, workers=None):
    res = cached_tlc(ctx, "RefNames.tla", cfg, timeout, workers)
    recs = parse_cases(res["out"])
    if len(recs) != res["distinct"]:
        raise vlib.Inconclusive("TLC printed %d strings for %s but found %d states" % (len(recs), cfg, res["distinct"]))
    k = cfg_constants(cfg)
    nsym = k["Syms"].count('"') // 2
    ml = int(k["MaxLen"])
    want = sum(nsym ** i for i in range(ml + 1))
    if len(recs) != want:
        raise vlib.Inconclusive("%s: %d strings, the space has %d" % (cfg, len(recs), want))
    ctx.log("%s: all %d strings over %d symbols up to length %d" % (cfg, want, nsym, ml))
    return recs, {"symbols": nsym, "max_len": ml, "strings": want}


def dag_cases(ctx, graphs, disk_every=0, gc_every=0, names=None, tagname=""):
    """bind every DAG: creation route and address-perturbing seed vary with the case; a sample is also built in an
    on-disk repository with the in-process SQL engine on top (dolt_merge_base, dolt_hashof, dolt_gc)."""
    out = []
    ndisk = 0
    for i, g in enumerate(graphs):
        b = {"seed": ctx.seed * 7919 + i, "route": ("mixed", "ds", "dangling")[(i + ctx.seed) % 3], "store": "mem"}
        if disk_every and (i + ctx.seed) % disk_every == 0:
            b["store"] = "disk"
            ndisk += 1
            if gc_every and ndisk % gc_every == 0:
                b["gc"] = True
        if names:
            b["names"] = names
        out.append({"graph": g, "binding": b, "key": tagname + json.dumps(g["par"])})
    return out


def amp_cases(ctx, graphs, count, ks, tagname="amp"):
    """amplified binding (DESIGN 3.1) for a sample of the DAGs: every model edge becomes a chain of K filler commits, so real heights
    reach the hundreds/thousands (closure keys cross byte boundaries, closures become multi-level trees). Two kinds of DAGs are
    taken, spread over the enumeration by a seed-dependent stride: (i) a merge whose FIRST parent is a root and whose second parent
    is at least two levels up (small closure merged with a big one), (ii) any DAG with a merge of distinct parents and height >= 4."""
    def kind1(g):
        return any(len(ps) >= 2 and g["ht"][ps[0] - 1] == 1 and max(g["ht"][p - 1] for p in ps[1:]) >= 3 for ps in g["par"])

    def kind2(g):
        return max(g["ht"]) >= 4 and any(len(set(ps)) >= 2 for ps in g["par"])
    out = []
    for kind, share in ((kind1, count // 2), (kind2, count - count // 2)):
        pool = [g for g in graphs if kind(g)]
        if not pool:
            continue
        stride = max(1, len(pool) // max(1, share))
        for j, g in enumerate(pool[(ctx.seed * 13) % stride::stride][:share]):
            k = ks[(j + ctx.seed) % len(ks)]
            out.append({"graph": g, "binding": {"seed": ctx.seed * 104729 + j, "store": "mem", "amp": k}, "key": "%s%d%s" % (tagname, k, json.dumps(g["par"]))})
    return out


def replay_one(ctx, engines):
    """--replay: re-drive exactly the saved case through the engine/mode recorded with it."""
    rp = json.load(open(ctx.replay))
    case = rp["case"]
    eng = rp.get("engine") or case.get("_engine") or "main"
    mode = rp.get("mode") or case.get("_mode") or "dag"
    binary, args, test_run, env = engines(eng, mode)
    res = ctx.run_engine(binary, args, [case], shards=1, test_run=test_run, env=env)[0]
    print(json.dumps(res, indent=1)[:6000])
    if not res.get("ok"):
        ctx.violation(ctx.id + ":" + str(res.get("fp")), res.get("detail", ""), {"case": case, "result": res, "reproduced": True,
                                                                                 "engine": eng, "mode": mode})


def tag(cases, engine, mode):
    for c in cases:
        c["_engine"] = engine
        c["_mode"] = mode
    return cases


def check_inconclusive(results):
    for r in results:
        if r and r.get("inconclusive"):
            raise vlib.Inconclusive("engine reported an inconclusive case: " + str(r.get("detail"))[:500])


def short_graph(g):
    return {k: g[k] for k in ("n", "par", "ht", "clo", "hca") if k in g}


def batch(recs, size):
    return [recs[i:i + size] for i in range(0, len(recs), size)]


def sha(obj):
    return hashlib.sha1(json.dumps(obj, sort_keys=True).encode()).hexdigest()
