"""C03 - a crash at any point recovers the last acknowledged state without loss.
Spec: spec/Journal.tla (+ TraceJournal.tla).  Engine: inpkg/store/nbs/journal (in-package test of go/store/nbs) + strace.

1. TLC exhaustive on the bounded Journal.tla: AckOnlyAfterSync, TornTailSilent, RecoveredRootIsAckedOrInFlight,
   ReachableFromRecoveredRootReadable, DamageThenValidRecordsReported, FailedOpenKeepsJournal, ReadOnlyOpenWritesNothing,
   IndexTransparentHere over all histories x crash points (k, part, fill) x damage sites inside the bound.
2. TLC simulation emits write histories; every step carries the state after it, every micro-step state carries its crash
   table (one row per number of surviving records between the synced and the written offset: allowed roots with their
   reachable sets, and the transcribed recovery), every state at rest carries its damage table.  The engine runs the
   history on the real store, compares the state at every operation boundary, builds the crash images of every row
   (byte cuts inside the next record x fills dropped/zeros/partial/garbage x manifest as of that step x index present/absent)
   and the damage images, opens each with the real code and checks the property (and, separately, the transcription).
3. Histories are run under strace with markers; the system-call trace must be a behaviour of TraceJournal.tla and must
   satisfy acknowledge-only-after-fsync directly."""
import importlib.util
import json
import os

LEVEL = "fault_enumeration"
_spec = importlib.util.spec_from_file_location("_bc", os.path.join(os.path.dirname(os.path.abspath(__file__)), "_bc.py"))
bc = importlib.util.module_from_spec(_spec)
_spec.loader.exec_module(bc)
vlib = bc.vlib


def critical(c, r):
    s = r.get("stats") or {}
    return s.get("crash_images_inside_unsynced", 0) > 0 or s.get("damage_rule_dataloss", 0) > 0


def run(ctx):
    binary = ctx.build_inpkg("store/nbs", "journal")
    if ctx.replay:
        return replay(ctx, binary)
    q = ctx.q
    ctx.assumptions += [
        "file data becomes durable only by fsync of that file; the unsynced tail of the journal survives as a byte prefix followed by nothing, zeros, a shorter run of zeros or garbage (the property's quantifier); holes followed by valid data inside the unsynced tail are not generated",
        "the manifest is replaced atomically (rename after fsync of the temp file, directory fsync) - C05's subject; crash images take the manifest as of the micro-step",
        "journalWriterBuffSize, memtable size and maxNovel are shrunk by the in-package engine (package variable / fields); record sizes 39..120 bytes; the 64 MiB maybe-sync threshold is modelled (SyncThreshold) but not reached by the replayed histories",
        "journal.idx of a killed session is the file as it was when the session started (the 16 KiB bufio never spills in model-sized sessions; the engine verifies that)",
        "chunks reachable from a root = every chunk present when that root was committed (harness reference encoding)"]
    ctx.cov["rule"] = ("evaluations = individual comparisons (state fields at operation boundaries, one per opened crash/damage image, "
                       "trace events matched); traces_validated_against_impl = behaviours replayed to the end + strace traces accepted; "
                       "non-trivial = behaviour whose images include a cut strictly inside the unsynced region or a damage site followed by "
                       "root+record; distinct by action sequence and binding seed")
    # 1. the model
    ctx.tlc_check("Journal.tla", q("c03_exh_quick.cfg", "c03_exh_thorough.cfg"), timeout=q(900, 3000))
    # 2. replay with crash/damage tables
    simcfg = q("c03_sim_quick.cfg", "c03_sim_thorough.cfg")
    beh = ctx.tlc_behaviours("Journal.tla", simcfg, num=q(64, 160), depth=q(40, 60), timeout=q(900, 3000))
    beh = beh[:q(40, 60)]
    amp = q({"idxfaults": "none"}, {"idxfaults": "none", "extraCuts": 10})
    cases = bc.make_cases(ctx, beh, simcfg, amp)
    if ctx.tier == "thorough":
        # every byte between the synced and the written offset, every byte of every record damaged: a subset of the histories
        for c in cases[:6]:
            c["amp"] = {"idxfaults": "none", "cuts": "all", "damage": "all"}
    selftests(ctx, binary, cases)
    res = ctx.run_engine(binary, [], cases, test_run=bc.TEST, shards=4, timeout=q(1500, 6000))
    stats = bc.classify(ctx, "C03", binary, cases, res, critical)
    ctx.cov["engine_stats"] = stats
    for k in ("crash_images", "crash_images_inside_unsynced", "damage_images", "damage_rule_dataloss"):
        if stats.get(k, 0) == 0:
            raise vlib.Inconclusive("vacuous run: no %s" % k)
    ctx.log("replayed %d behaviours: %s" % (len(cases), json.dumps(stats)))
    # 3. system-call traces
    traces(ctx, binary)
    if stats.get("damage_zone_none", 0):
        ctx.notes.append("statement reading: %d damage images where the valid records after the damage are only chunk records and/or one final root "
                         "record were truncated silently by the code (%d reported). Such an image is byte-identical to a torn in-flight commit whose "
                         "earlier pages were lost, which the statement wants discarded silently; both outcomes are accepted there. "
                         "The report is demanded whenever a root record is followed by another record after the damage."
                         % (stats.get("damage_zone_none", 0), stats.get("damage_zone_dataloss", 0)))


def selftests(ctx, binary, cases):
    import copy
    good = next((c for c in cases if any(s.get("a") == "Ack" for s in c["steps"])), None)
    if good is None:
        raise vlib.Inconclusive("no behaviour with an acknowledged commit")
    n = len(good["cfg"]["RecSz"])

    def corrupt_state(c):
        for s in c["steps"]:
            if s.get("a") == "Ack":
                s["exp"]["root"] = s["exp"]["root"] % n + 1
                return c
        return c

    def corrupt_table(c):
        for s in c["steps"]:
            for row in s.get("cr") or []:
                for a in row["allowed"]:
                    a["root"] = a["root"] % n + 1
        return c
    ctx.binding_selftest(binary, good, corrupt_state, test_run=bc.TEST)
    first = ctx.cov.get("binding_selftest", "")
    ctx.binding_selftest(binary, good, corrupt_table, test_run=bc.TEST)
    ctx.cov["binding_selftest"] = first + " | crash table with wrong allowed roots rejected: " + ctx.cov.get("binding_selftest", "")[-120:]


def traces(ctx, binary):
    q = ctx.q
    tb = ctx.tlc_behaviours("Journal.tla", "c03_sim_trace.cfg", num=q(32, 100), depth=40, seed=ctx.seed + 500, timeout=q(900, 3000))
    tb = tb[:q(24, 60)]
    tcases = bc.make_cases(ctx, tb, "c03_sim_trace.cfg", {"images": "none"})
    res, parsed = bc.strace_cases(ctx, binary, tcases, "c03")
    bc.classify(ctx, "C03", binary, tcases, res, lambda c, r: False)
    if len(parsed) != len(tcases):
        raise vlib.Inconclusive("strace log has %d cases, expected %d" % (len(parsed), len(tcases)))
    path = os.path.join(ctx.work, "c03-trace.ndjson")
    total = 0
    commits = 0
    with open(path, "w") as f:
        for c, r, p in zip(tcases, res, parsed):
            bad = bc.ack_after_sync(p["ev"])
            if bad:
                # record the same history once more, alone; only a reproduced observation is reported
                _, again = bc.strace_cases(ctx, binary, [dict(c)], "again%d" % c["n"])
                bad2 = bc.ack_after_sync(again[0]["ev"]) if again else None
                if not bad2:
                    ctx.notes.append("unreproduced trace observation (ignored): " + bad)
                    bad = None
            if bad:
                ctx.violation("C03:trace:commit-acknowledged-before-fsync", bad, {"case": c, "events": p["ev"], "reproduced": True, "kind": "trace"})
            ev = bc.to_trace(p["ev"], r.get("addrs") or [])
            commits += sum(1 for e in ev if e["ev"] == "ack")
            for e in ev:
                f.write(json.dumps(e) + "\n")
            f.write(json.dumps({"ev": "reset"}) + "\n")
            total += len(ev) + 1
    if commits == 0:
        raise vlib.Inconclusive("no acknowledged commit in the recorded traces")
    accepted, matched, tot, out = ctx.tlc_trace_validate("TraceJournal.tla", "c03_trace.cfg", path, timeout=q(900, 3000))
    if not accepted:
        lines = open(path).read().splitlines()
        at = lines[matched] if 0 <= matched < len(lines) else "?"
        if ctx.violations:
            return
        keep = os.path.join(vlib.VERIF, "replays", ctx.id)
        os.makedirs(keep, exist_ok=True)
        import shutil
        shutil.copy(path, os.path.join(keep, "rejected-trace.ndjson"))
        raise vlib.Inconclusive("the recorded system-call trace is not a behaviour of TraceJournal.tla: matched %d of %d events, next event %s "
                                "(acknowledge-after-fsync itself holds on the trace; saved replays/%s/rejected-trace.ndjson)\n%s"
                                % (matched, tot, at, ctx.id, out[-1500:]))
    ctx.cov["evaluations"] += matched
    ctx.cov["traces_validated_against_impl"] += len(tcases)
    ctx.cov["strace_events_matched"] = matched
    ctx.cov["commits_acknowledged_in_traces"] = commits
    # binding demonstration for the trace: drop the first fsync that precedes an acknowledgement -> must be rejected
    lines = open(path).read().splitlines()
    k = next((i for i, l in enumerate(lines) if '"ack"' in l), None)
    j = max(i for i in range(k) if '"fsync"' in lines[i])
    bad = os.path.join(ctx.work, "c03-trace-bad.ndjson")
    with open(bad, "w") as f:
        f.write("\n".join(lines[:j] + lines[j + 1:]) + "\n")
    acc2, m2, t2, _ = ctx.tlc_trace_validate("TraceJournal.tla", "c03_trace.cfg", bad, timeout=q(900, 3000))
    if acc2:
        raise vlib.Inconclusive("trace self-test failed: a trace without the fsync before the acknowledgement was accepted")
    ctx.cov["binding_selftest"] = ctx.cov.get("binding_selftest", "") + " | trace without the fsync before an ack rejected at event %d" % m2
    ctx.log("strace: %d traces, %d events matched, %d commits acknowledged after fsync" % (len(tcases), matched, commits))


def replay(ctx, binary):
    rp = json.load(open(ctx.replay))
    c = rp["case"]
    if rp.get("kind") == "trace":
        res, parsed = bc.strace_cases(ctx, binary, [c], "replay")
        bad = bc.ack_after_sync(parsed[0]["ev"]) if parsed else "no trace"
        print(json.dumps(parsed[0]["ev"] if parsed else [], indent=0)[:4000])
        if bad:
            ctx.violation("C03:trace:commit-acknowledged-before-fsync", bad, {"case": c, "reproduced": True, "kind": "trace"})
        return
    r = ctx.run_engine(binary, [], [c], shards=1, test_run=bc.TEST)[0]
    print(json.dumps(r, indent=1)[:6000])
    for sf in (r.get("soft") or []):
        if not str(sf.get("fp")).startswith("drift:"):
            ctx.violation(str(sf.get("fp")), sf.get("detail", ""), {"case": c, "result": sf, "reproduced": True})
    if not r.get("ok") and not str(r.get("fp", "")).startswith("internal:"):
        ctx.violation(str(r.get("fp")), r.get("detail", ""), {"case": c, "result": r, "reproduced": True})
