"""C20 - ref updates (commit, fast-forward, set-head, tag, delete, working-set update) are linearizable and never lose a
concurrent update.   Spec: spec/RefStore.tla (+ spec/TraceRefStore.tla).   Engine: harness/refstore.

1. TLC exhaustive (bounded): every interleaving of 2 clients x (1 op | 2+1 ops) (thorough: 3 clients, 2x2, two branches)
   of the database.update loop, for one shared store instance and for one instance (cached root) per client, with the
   named deviation CASNoopLenient and the fault action StoreFault: Linearizable, ConditionalOpsCheckWhatTheyApplied,
   NonForcedMovesToDescendant, NoLostUpdate, HeadWsAtomic, ResultMatchesCAS, RootChangesOnlyByCAS.
2. G: TLC simulation emits interleavings; harness/refstore replays them step by step on datas.Database over a gating
   ChunkStore wrapper (MemoryStoreView shared / per client, NomsBlockStore file store shared / one instance per client,
   journaling store) and compares the persisted dataset map, control point, error class, returned datasets after every step.
3. T: ungated goroutines (and OS processes on one file store) log call/return; TraceRefStore.tla must explain each history.
"""
import importlib.util
import os

LEVEL = "model_checking"
_s = importlib.util.spec_from_file_location("_bf", os.path.join(os.path.dirname(__file__), "_bf.py"))
bf = importlib.util.module_from_spec(_s)
_s.loader.exec_module(bf)
vlib = bf.vlib

EXH_Q = ["c20_exh_q_shared1.cfg", "c20_exh_q_inst1.cfg", "c20_exh_q_two.cfg"]
EXH_T = EXH_Q + ["c20_exh_t_three.cfg", "c20_exh_t_two.cfg", "c20_exh_t_inst2.cfg", "c20_exh_t_branches.cfg"]


def critical(c, r):
    f = bf.behaviour_facts(c["steps"])
    return f["cas_fail"] > 0 and not r.get("truncated")


def run(ctx):
    binary = ctx.build_engine("refstore")
    if ctx.replay:
        bf.replay_saved(ctx, binary)
        return
    # VERIF_BF_SKIP_EXH=1: builder's mutation runs only (the exhaustive TLC part does not depend on the dolt tree)
    for cfg in [] if os.environ.get("VERIF_BF_SKIP_EXH") else ctx.q(EXH_Q, EXH_T):
        ctx.tlc_check("RefStore.tla", cfg, timeout=ctx.q(7200, 14400), heap=ctx.q("6g", "8g"))
    ctx.assumptions += [
        "dataset values are bound structurally (commit = root value, parent list, author; working set = working/staged root, meta variant); "
        "commit hashes are made deterministic with fixed dates so that content-addressed equality in the model is address equality in the store",
        "merge state / rebase state of working sets, stash lists, statistics refs and SetHead preconditions are not driven",
        "gates are the Root() and Commit() calls on the ChunkStore under datas.NewTypesDatabase (types.ValueStore + tree.NodeStore), "
        "the same construction as datas.NewDatabase",
        "a store call failing with an environment error (fileManifest's 100 ms lock timeout between processes) is the model's fault action "
        "StoreFault: the operation returns an error of class 'other' and must have changed nothing",
    ]
    ctx.cov["rule"] = ("G: behaviours = TLC simulations of RefStore.tla (2-3 clients x 2 ops, all op kinds, shared and per-client store instances), "
                       "each replayed on a backend under a binding (filler datasets); one evaluation = one comparison of persisted dataset map / control "
                       "point / result class / returned dataset / captured datasets / store-commit outcome with the model; non-trivial = behaviour in which at "
                       "least one store CAS lost a race (failed and was retried) and that was replayed to its end; distinct by hash of action sequence + binding. "
                       "T: traces = call/return histories of 3 concurrent goroutines (2 OS processes) accepted by TraceRefStore.tla; evaluations += events matched")
    # ---------------------------------------------------------------- G
    nq = ctx.q(1, 6)
    beh_s2 = ctx.tlc_behaviours("RefStore.tla", "c20_sim_shared.cfg", num=150 * nq * 2, depth=60, timeout=7200, procs=4)
    beh_s3 = ctx.tlc_behaviours("RefStore.tla", "c20_sim_shared3.cfg", num=60 * nq * 2, depth=90, seed=ctx.seed + 11, timeout=7200, procs=4)
    beh_i2 = ctx.tlc_behaviours("RefStore.tla", "c20_sim_inst.cfg", num=100 * nq * 2, depth=60, seed=ctx.seed + 23, timeout=7200, procs=4)
    beh_i3 = ctx.tlc_behaviours("RefStore.tla", "c20_sim_inst3.cfg", num=40 * nq * 2, depth=90, seed=ctx.seed + 37, timeout=7200, procs=4)
    fill = ctx.q([0, 30, 400], [0, 30, 400, 3000])
    cs = (bf.gated_cases(ctx, beh_s2[:150 * nq] + beh_s3[:60 * nq], bf.SHARED_BACKENDS, fill) +
          bf.gated_cases(ctx, beh_i2[:100 * nq] + beh_i3[:40 * nq], bf.INST_BACKENDS, fill))
    hist = {}
    for c in cs:
        f = bf.behaviour_facts(c["steps"])
        for k in f["kinds"]:
            hist[k] = hist.get(k, 0) + 1
        for k in f["res"]:
            hist["%s->%s" % k] = hist.get("%s->%s" % k, 0) + 1
        if f["faults"]:
            hist["StoreFault"] = hist.get("StoreFault", 0) + 1
    ctx.cov["op_histogram"] = dict(sorted(hist.items()))
    missing = [k for k in bf.ALL_KINDS if k != "Get" and k not in hist]
    if missing:
        raise vlib.Inconclusive("generator never produced operation kinds %s" % missing)
    st = bf.pick_selftest_case(cs)
    ctx.binding_selftest(binary, st, bf.corrupt_root, args=["gated"])
    first = ctx.cov.get("binding_selftest", "")
    ctx.binding_selftest(binary, st, bf.corrupt_drop, args=["gated"])
    ctx.cov["binding_selftest"] = "altered persisted value: %s | dropped CAS step: %s" % (first, ctx.cov.get("binding_selftest", ""))
    res = ctx.replay_behaviours(binary, cs, args=["gated"], critical=critical, wrap=lambda c: c, shards=4,
                                fingerprint=lambda c, r: "C20:" + str(r.get("fp")), timeout=3000)
    ctx.log("gated replay: %d behaviours, %d ok" % (len(cs), sum(1 for r in res if r.get("ok"))))
    ctx.cov["truncated_at_noop_cas_variant"] = sum(1 for r in res if r.get("truncated"))
    # ---------------------------------------------------------------- T
    kinds = ["Commit", "Commit", "CommitForce", "Amend", "FF", "FF", "SetHead", "Tag", "Delete", "UpdWS", "UpdWS", "CWW", "CWW", "SetTuple", "Get", "Get"]
    nt = ctx.q(24, 150)
    sc = bf.stress_cases(ctx, nt, bf.SHARED_BACKENDS, kinds, nops=ctx.q(6, 7))
    _, tr_sh = bf.run_stress(ctx, binary, sc, "stress")
    ic = bf.stress_cases(ctx, ctx.q(12, 48), bf.INST_BACKENDS, kinds, nops=6)
    _, tr_in = bf.run_stress(ctx, binary, ic, "stress")
    pc = bf.stress_cases(ctx, ctx.q(4, 16), ["procs"], kinds, clients=("A", "B"), nops=ctx.q(6, 8), mode="procs")
    _, tr_pr = bf.run_stress(ctx, binary, pc, "procs")
    if tr_sh:
        bf.trace_selftest(ctx, tr_sh[0], "c20_trace_shared.cfg")
    bf.validate_traces(ctx, tr_sh, "c20_trace_shared.cfg", "goroutines/shared store")
    bf.validate_traces(ctx, tr_in, "c20_trace_inst.cfg", "goroutines/one store instance per client")
    bf.validate_traces(ctx, tr_pr, "c20_trace_inst.cfg", "2 OS processes on one file store")
    ctx.cov["stress_traces"] = {"shared": len(tr_sh), "per_client_instance": len(tr_in), "os_processes": len(tr_pr)}
    for t in (tr_sh + tr_pr)[:1]:
        ctx.sample({"trace_head": t[:6], "events": len(t)})
