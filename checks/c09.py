"""C09 - the reference walker reports every address an object can dereference.

C09 is the binding obligation of the function Refs that the specs ChunkStore / GC / Remote are parameterised by: C07,
C08 and C35 hold for the code only if the code's walker (SerialMessage.WalkAddrs, message.WalkAddresses, ...) reports at
least what loading dereferences. It is discharged on every repository that the replayed histories of RepoGC.tla create
(and on scripted repositories for the object kinds SQL histories of the model cannot reach), in two attribution-free,
differential forms (engine harness/gc, touch.go):

  A  R subset of W: the database is reopened on a recording chunk store (libbk.Store embeds the real generational store);
     dolt's own loaders are driven over everything (store root -> datasets; branches, remotes, tags, working sets with
     merge / cherry-pick / revert / rebase state, stashes, tuples, statistics; every commit with parents, closure and
     root value; root value -> foreign keys, tables, schemas, row maps, every secondary index, artifacts, conflict
     schemas, auto-increment; and SQL over every user and system table on every branch, AS OF staged / head / every
     commit). R = addresses requested and found, W = closure of the store root under the real walker.
  B  every chunk of W is scanned for the literal addresses of chunks that exist in the store; each must be reported by
     the walker FOR THAT CHUNK. This realises "each address field populated by a distinct value" where SQL cannot make
     values distinct (a rebase's onto-commit is always reachable through the rebase branch as well).

Which (kind, optional field) pairs were non-empty is counted (coverage table); a required pair that never was makes the
check inconclusive."""
import collections
import importlib.util
import json
import os

LEVEL = "model_checking"
_s = importlib.util.spec_from_file_location("_bk", os.path.join(os.path.dirname(__file__), "_bk.py"))
bk = importlib.util.module_from_spec(_s)
_s.loader.exec_module(bk)
vlib = bk.vlib

BQ = [{"keys": "small", "c1": "int", "c2": "int", "filler": 0, "rich": True}, {"keys": "spread", "c1": "varchar", "c2": "int", "filler": 25},
      {"keys": "spread", "c1": "bigint", "c2": "varchar", "filler": 260, "rich": True}]

# (kind.field) pairs that must have been non-empty at least once. Kinds are flatbuffer file ids (go/serial/*.fbs):
# STRT store root, DCMT commit, CMCL commit closure, DTAG tag, WRST working set, RTVL root value, DTBL table, DSCH schema,
# DFKC foreign keys, TUPM prolly node, ADRM address map, ARTM merge artifacts, BLOB blob node, SLST stash list, STSH stash
REQUIRED = ["STRT", "DCMT.parents=0", "DCMT.parents=1", "DCMT.parents=2", "DCMT.parent_closure", "CMCL.addresses", "DTAG",
            "WRST.staged_root_addr", "WRST.merge_state(merge)", "WRST.merge_state(cherry-pick)", "WRST.merge_state(revert)",
            "WRST.merge_state.pre_merge_head_commit_addr", "WRST.rebase_state",
            "RTVL.tables", "RTVL.foreign_key_addr", "DTBL.secondary_indexes", "DTBL.artifacts", "DTBL.auto_increment_value",
            "DTBL.primary_index(with addresses)", "DSCH", "DFKC", "TUPM.addresses", "TUPM.no-addresses", "ARTM.addresses",
            "BLOB.addresses", "BLOB.no-addresses", "SLST", "STSH",
            "touched:rebasestates", "touched:mergestates", "touched:stashes", "touched:tags", "touched:secondary-indexes",
            "touched:artifacts", "touched:tables-with-conflicts", "touched:foreign-keys", "touched:closure-entries"]
NOT_REACHED = ["STAT (statistics refs: the statistics workers are not started)", "TUPL (tuples: no SQL operation writes them)",
               "remote-tracking refs (no remote in the histories)", "DTBL.violations / DTBL.conflicts.* (legacy format fields)",
               "IVFF vector index nodes", "WRST.merge_state.unmergable_tables / pending_commit_hashes (strings, no address fields)"]


def run(ctx):
    binary = ctx.build_engine(bk.ENGINE)
    if ctx.replay:
        bk.replay_one(ctx, binary)
        return
    if os.environ.get("BK_SKIP_EXH"):
        ctx.notes.append("BK_SKIP_EXH set: exhaustive TLC configs skipped (mutation run)")
    else:
        ctx.tlc_check("RepoGC.tla", "c08_repo_exh_quick.cfg", timeout=3000)
    ctx.cov["rule"] = (
        "behaviours = TLC simulation of RepoGC.tla (merge-centred and working-set-centred action mixes with GC / Reopen / collections "
        "inside a rebase), the ones with most operations in progress selected, replayed step by step on the real SQL engine (projection "
        "compared after every step); at every checkpoint (after each collection, inside each rebase, at the end) the loader / walker "
        "comparisons A (R subset of W) and B (embedded addresses reported per chunk) run on the reopened database; plus scripted "
        "repositories (mode rich) for foreign keys, unique / multi-column indexes, out-of-band TEXT / JSON / BLOB, auto-increment, keyless "
        "tables, constraint violations, merge / cherry-pick / revert / rebase in progress, stashes. evaluations = addresses compared (A) "
        "+ embedded addresses compared (B) + projection comparisons; non-trivial = a case in which a working set carried merge or "
        "rebase state at a checkpoint; distinct = by action sequence and binding")
    ctx.assumptions += ["walker = types.WalkAddrsFromNomsValue on the chunk bytes (what ValueStore.GC, the puller and fsck use)",
                        "only the __DOLT__ storage format is driven",
                        "B compares literal 20-byte occurrences of addresses of EXISTING chunks: an address field whose target is absent from the store is not seen"]
    ctx.notes += ["not reached (no dolt operation of the histories populates them): " + "; ".join(NOT_REACHED),
                  "addresses rendered as TEXT inside chunks and not reported by the walker (dolt_rebase plan rows, pending commit hashes, "
                  "commit messages) are counted in coverage as text-address-not-walked:<kind>; they are data, not address fields"]
    cov = collections.Counter()
    first = True
    total = collections.Counter()
    only = set(filter(None, os.environ.get("BK_ONLY", "").split(",")))   # developer knob for mutation runs: repo, rich
    if only:
        ctx.notes.append("BK_ONLY=%s: only these parts were run (mutation run)" % ",".join(sorted(only)))
    for cfg, num, depth, keep in [] if only and "repo" not in only else [(ctx.q("c08_repo_sim_merge_quick.cfg", "c08_repo_sim_merge_thorough.cfg"), ctx.q(40, 800), ctx.q(36, 50), ctx.q(10, 140)),
                                  (ctx.q("c08_repo_sim_ws_quick.cfg", "c08_repo_sim_ws_thorough.cfg"), ctx.q(32, 600), ctx.q(34, 48), ctx.q(6, 100))]:
        beh = ctx.tlc_behaviours("RepoGC.tla", cfg, num=num, depth=depth, seed=ctx.seed + 1000, timeout=ctx.q(1800, 3 * 3600))
        beh = bk.dedupe_prefix(beh, lambda b: b["steps"])
        beh = bk.select(beh, bk.repo_score, keep)
        cases = bk.repo_cases(beh, cfg, BQ, c09=True)
        total.update(bk.histogram(cases))
        ctx.log("%s: %d behaviours selected" % (cfg, len(cases)))
        if first:
            def corrupt(c):
                # binding self-test: the engine's view of the walker loses one field (commit -> root value): the comparison must object
                c["opts"]["selftest_omit"] = "DCMT.root"
                return c
            ctx.binding_selftest(binary, cases[0], corrupt, args=["repo"])
            first = False
        res, agg, cv = bk.run_cases(ctx, binary, "repo", cases,
                                    lambda c, r: (r.get("cov") or {}).get("WRST.merge_state", 0) + (r.get("cov") or {}).get("WRST.rebase_state", 0) > 0, "C09")
        cov.update(cv)
        bk.add_outcomes(ctx, "replayed_action_outcomes", agg)
        ctx.cov["addresses_requested_by_loaders"] = ctx.cov.get("addresses_requested_by_loaders", 0) + sum(r.get("addresses_requested", 0) for r in res)
        ctx.cov["chunks_walked"] = ctx.cov.get("chunks_walked", 0) + sum(r.get("chunks_walked", 0) for r in res)
    rich = [{"variant": v, "mode": "rich", "key": ["rich", v], "steps": ["rich-%d" % v]} for v in range(ctx.q(2, 6))]
    res, agg, cv = bk.run_cases(ctx, binary, "rich", rich, lambda c, r: True, "C09")
    cov.update(cv)
    ctx.cov["addresses_requested_by_loaders"] = ctx.cov.get("addresses_requested_by_loaders", 0) + sum(r.get("addresses_requested", 0) for r in res)
    ctx.cov["chunks_walked"] = ctx.cov.get("chunks_walked", 0) + sum(r.get("chunks_walked", 0) for r in res)
    ctx.cov["coverage_table"] = dict(sorted(cov.items()))
    ctx.sample({"coverage_table (kind.field -> chunks in which it was non-empty / objects touched)": dict(sorted(cov.items()))})
    missing = [p for p in REQUIRED if cov.get(p, 0) == 0]
    if missing and not ctx.violations and not only:
        raise vlib.Inconclusive("coverage: required (kind, field) pairs never populated: %s" % missing)
