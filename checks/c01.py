"""C01 - chunk reads return exactly the bytes stored under that address; all read APIs and all backends agree.
Spec: spec/ChunkStore.tla (single-instance chunk store: memtable, novel/upstream table sets, manifest view, has-cache,
generations, ghosts).  Engine: inpkg/store/nbs/chunkstore (E1).
TLC (exhaustive, bounded) checks ReadsAgree / OnlyCollectorsRemove / HasCacheSound on the model; TLC (simulation) emits
behaviours (Put with automatic flush, Commit in all its branches, Rebase, Reopen, foreign commits, table-file additions as
table or archive, conjoin, collections into tables or archives, generational collections, ghost sets) whose every step
carries the expected projection; the engine replays them on NomsBlockStore over local files / mmap'd archive indexes /
in-memory and local blobstores / the chunk journal, on GenerationalNBS with and without ghost store and on
MemoryStoreView, with addresses forged to share 8-byte prefixes, and compares Get / Has / HasMany / GetMany /
GetManyCompressed (every subset of the addresses, salted with never-written neighbours) / Count / IterateAllChunks /
memtable / table sets / has-cache / a fresh opener's view after EVERY step."""
import importlib.util
import os

LEVEL = "model_checking"
_spec = importlib.util.spec_from_file_location("_ba", os.path.join(os.path.dirname(__file__), "_ba.py"))
ba = importlib.util.module_from_spec(_spec)
_spec.loader.exec_module(ba)

ENV = {"VERIF_ONLY": "c01"}


def critical(c, r):
    # non-trivial: the behaviour went through table files (a flush) and through at least one operation that
    # restructures or replaces them, on a binding with colliding / dense / extreme prefixes or unforged addresses
    return r.get("flush", 0) > 0 and (r.get("gc", 0) + r.get("conjoin", 0) + r.get("addtab", 0) + r.get("ext", 0)) > 0


def corrupt(c):
    st = c["steps"][-1]
    kind = c["steps"][0]["args"]["kind"]
    g = st["exp"]["get"]
    a = sorted(g)[0]
    g[a] = kind[a] if g[a] == "none" else "none"
    return c


def run(ctx):
    binary = ba.build(ctx)
    if ctx.replay:
        ba.replay_file(ctx, binary, "C01", ENV)
        return
    ctx.tlc_check("ChunkStore.tla", ctx.q("c01_exh_quick.cfg", "c01_exh_thorough.cfg"), timeout=ctx.q(7000, 14000))
    beh = ctx.tlc_behaviours("ChunkStore.tla", ctx.q("c01_sim_quick.cfg", "c01_sim_thorough.cfg"),
                             num=ctx.q(640, 2400), depth=ctx.q(12, 20), timeout=ctx.q(7000, 14000))
    acts = ba.require_actions(beh, ["Put", "Commit", "Rebase", "Reopen", "ExtCommit", "AddTableFile", "Conjoin", "GC", "GenGC", "SetGhosts"], "c01 sim")
    ctx.cov["action_histogram"] = dict(acts)
    cases = ba.store_cases(ctx, beh, units=ctx.q([1, 64, 4096], [1, 64, 4096, 300000]), filler_every=ctx.q(40, 60),
                           subsets=ctx.q(0, 48), tab_backends=ba.TAB_BACKENDS_Q)
    fams = {}
    for c in cases:
        k = "%s/%s" % (c["binding"]["backend"], c["steps"][0]["args"]["g"])
        fams[k] = fams.get(k, 0) + 1
    ctx.cov["cases_per_backend"] = fams
    ctx.cov["rule"] = ("behaviours = TLC simulation of ChunkStore.tla, each replayed step by step on the real store of its backend family "
                       "under a binding (prefix classes collide/dense/edge/random/real, payload unit, concrete backend, optional 1100-chunk "
                       "base archive with dictionary); evaluations = individual comparisons of a real read/observer with the TLC-computed value; "
                       "non-trivial = behaviour with a memtable flush and at least one of GC / Conjoin / AddTableFile / ExtCommit; "
                       "distinct = by hash of the action sequence and binding key")
    ctx.assumptions += [
        "addresses below the value store are caller-supplied (chunks.NewChunkWithHash): forged 20-byte addresses share 8-byte prefixes; 'content hash = address' is checked exactly only under the 'real' binding (address = hash of the payload) and for archive deliveries, which label chunks by content hash",
        "forged addresses differ inside their first 16 bytes (the journal's range index keys on a 16-byte prefix by documented assumption)",
        "zero-length chunks are not stored (memTable.addChunk / tableWriter.addChunk panic on them by contract; EmptyChunk is the 'absent' value)",
        "GenerationalNBS over archives is driven with unforged addresses only (it books deliveries by Chunk.Hash(), archives deliver content hashes)",
        "less than journalWriterBuffSize of uncommitted journal records; chunk records stay below 5 MB",
    ]
    ctx.notes += [
        "statement reading: IterateAllChunks visits table files / journal only, never the memtable (store.go:2659): 'full iteration agrees' is checked for chunks that have been flushed; unflushed chunks are checked to be absent from the iteration exactly as the model says",
        "Count() is the sum of per-table record counts plus the memtable (duplicates across tables are counted); over a journal the journal source is counted once per table set listing it - compared as a lower bound there; MemoryStoreView.Count is len(pending); none of this is part of the statement",
        "flushed-but-uncommitted journal records become invisible at reopen when the manifest does not list the journal and re-appear with the next flush (modelled: jlimbo); consistent with 'bytes iff written and not collected'",
    ]
    ctx.binding_selftest(binary, cases[0], corrupt, test_run=ba.TEST, env=ENV)
    res = ctx.replay_behaviours(binary, cases, critical=critical, wrap=lambda c: c, test_run=ba.TEST, env=ENV,
                                fingerprint=ba.fp_of("C01"), timeout=ctx.q(7000, 14000))
    ba.check_hangs(ctx, res)
