"""Helpers of builder bL (C35): TLC runs that are EXPECTED to find a violation (non-vacuity of the invariants of
spec/Remote.tla on deliberately broken designs), behaviour post-processing."""
import os
import re
import shutil
import subprocess
import tempfile
import time

import vlib


def tlc_expect_violation(ctx, module, cfg, invariant, timeout=900, workers=1):
    """Run TLC on a config of a deliberately broken variant; it must report that `invariant` is violated.
    Anything else (no error, another error, timeout) makes the check inconclusive: the invariant would be vacuous."""
    d = ctx._spec_dir()
    md = tempfile.mkdtemp(prefix="md-", dir=ctx.work)
    cmd = ["java", "-XX:+UseParallelGC", "-Xss256m", "-Xmx3g", "-cp", vlib.TLA_CP, "tlc2.TLC", "-workers", str(workers),
           "-metadir", md, "-config", os.path.join("cfg", cfg), "-deadlock", "-noGenerateSpecTE", module]
    t = time.time()
    try:
        p = subprocess.run(cmd, cwd=d, timeout=timeout, stdout=subprocess.PIPE, stderr=subprocess.STDOUT, text=True)
    except subprocess.TimeoutExpired:
        raise vlib.Inconclusive("TLC timeout on the broken-variant config %s" % cfg)
    finally:
        shutil.rmtree(md, ignore_errors=True)
    out = p.stdout
    m = re.search(r"Invariant (\w+) is violated", out)
    if not m or m.group(1) != invariant:
        raise vlib.Inconclusive("non-vacuity: TLC did not report %s violated on %s (a broken design passes => the invariant is vacuous):\n%s"
                                % (invariant, cfg, out[-1500:]))
    g = re.search(r"(\d+) states generated, (\d+) distinct states found", out)
    depth = len(re.findall(r"^State \d+:", out, re.M))
    ctx.log("TLC %s: %s violated as expected (counterexample of %d states, %.1fs)" % (cfg, invariant, depth, time.time() - t))
    return {"cfg": cfg, "invariant": invariant, "counterexample_len": depth, "generated": int(g.group(1)) if g else 0}


def run_parallel(jobs, maxpar=4):
    """jobs: list of zero-arg callables; runs them in threads (each starts its own JVM), re-raises the first exception."""
    import concurrent.futures as cf
    out = []
    with cf.ThreadPoolExecutor(max_workers=maxpar) as ex:
        futs = [ex.submit(j) for j in jobs]
        for f in futs:
            out.append(f.result())
    return out


def histogram(behaviours):
    h = {}
    for b in behaviours:
        for s in b:
            k = s["a"] + ":" + s["res"]
            h[k] = h.get(k, 0) + 1
    return h
