"""C07 - committed state never contains dangling references; a write that would commit one is rejected and leaves
the persisted root alone.  Spec: spec/ChunkStore.tla with the reference DAG `refs` (all DAGs over the addresses with at
most MaxEdges edges), pending references of the memtable, the has-cache, errorIfDangling on the new root, the reference
check of AddTableFile, collections.  Engine: inpkg/store/nbs/chunkstore (E1).
TLC (exhaustive, bounded, MemVouch = FALSE = corrected design) checks C07Closed, HasCacheSound, ViewRootPresent and the
action property RejectedWriteLeavesRootUnchanged; a second, directed exhaustive search with the code's own rule
(MemVouch = TRUE) enumerates the behaviours that end in a persisted root with a missing descendant.  Both the simulated
behaviours and the hazard behaviours are replayed on the real stores; after every step the result class of the call, the
root, and - on a FRESHLY OPENED store - the root, presence of every address and the reference closure of the persisted
root are compared with TLC's values, the closure also being asserted outright."""
import importlib.util
import os

LEVEL = "model_checking"
_spec = importlib.util.spec_from_file_location("_ba", os.path.join(os.path.dirname(__file__), "_ba.py"))
ba = importlib.util.module_from_spec(_spec)
_spec.loader.exec_module(ba)

ENV = {"VERIF_ONLY": "c07"}


def critical(c, r):
    # non-trivial: a write was rejected (dangling memtable / dangling root / refused table file) or a commit lost the root race
    return r.get("dangling", 0) > 0 or r.get("stale", 0) > 0 or any(s.get("res") == "err" for s in c["steps"])


def corrupt(c):
    # claim that the last step was rejected / accepted the other way round
    st = c["steps"][-1]
    st["exp"]["mroot"] = "a1" if st["exp"]["mroot"] != "a1" else "none"
    return c


def run(ctx):
    binary = ba.build(ctx)
    if ctx.replay:
        ba.replay_file(ctx, binary, "C07", ENV)
        return
    ctx.tlc_check("ChunkStore.tla", "c07_exh_quick.cfg", timeout=ctx.q(7000, 14000))          # 3 addresses, 7 DAGs, 4 steps
    if ctx.tier == "thorough":
        ctx.tlc_check("ChunkStore.tla", "c07_exh_deep.cfg", timeout=14000)                   # deep: the same, 5 steps
        ctx.tlc_check("ChunkStore.tla", "c07_exh_thorough.cfg", timeout=14000)               # wide: 4 addresses, 42 DAGs, journal
    # directed search with the code's rule: behaviours whose last state has a persisted root with a missing descendant
    hazards, hres = ba.tlc_enumerate(ctx, "ChunkStore.tla", ctx.q("c07_hazard_quick.cfg", "c07_hazard_thorough.cfg"), timeout=ctx.q(7000, 14000))
    ctx.cov["hazard_behaviours_found_by_tlc"] = len(hazards)
    beh = ctx.tlc_behaviours("ChunkStore.tla", ctx.q("c07_sim_quick.cfg", "c07_sim_thorough.cfg"),
                             num=ctx.q(480, 2000), depth=ctx.q(11, 18), timeout=ctx.q(7000, 14000))
    acts = ba.require_actions(beh, ["Put", "Commit", "Rebase", "Reopen", "ExtCommit", "AddTableFile", "Conjoin", "GC", "GenGC", "SetGhosts"], "c07 sim")
    _, results = ba.histogram(beh)
    for need in ("Put/dangling", "Commit/dangling", "Commit/false", "AddTableFile/err"):
        if results.get(need, 0) == 0:
            raise ba.vlib.Inconclusive("generator vacuity: no %s step in the simulated behaviours" % need)
    ctx.cov["action_histogram"] = dict(acts)
    ctx.cov["result_histogram"] = dict(results)
    lim = ctx.q(60, 250)
    cases = ba.store_cases(ctx, hazards[:lim] + beh, units=ctx.q([1, 64], [1, 64, 4096]), filler_every=0, subsets=4)
    ctx.cov["rule"] = ("behaviours = (a) every behaviour of the directed exhaustive TLC search (code's rule MemVouch = TRUE) that ends in a broken persisted closure, "
                       "(b) TLC simulation of ChunkStore.tla over all reference DAGs with <= MaxEdges edges; each replayed step by step: result class of "
                       "every Put/Commit/AddTableFile/GC, Root(), has-cache, table sets, and on a freshly opened store Root/Has/Get of every address and the walk "
                       "from the persisted root; non-trivial = behaviour with a rejected write or a lost root race; distinct = by action sequence and binding key")
    ctx.assumptions += [
        "references travel out of band (the harness's getAddrs looks the chunk's address up in the model DAG), payload bytes are unrelated to them",
        "a store without a root accepts table files unchecked (documented at store.go:2110): the model enables that addition only for files whose references are satisfiable (trusted pusher)",
        "ghost sets only grow (PersistGhostHashes replaces the whole set; shrinking it would orphan references by definition)",
        "a journal store is looked at through a second opener only once, after the last step (exclusive lock)",
    ]
    ctx.notes += ["MemoryStoreView has no root check at Commit and is not an anchor of C07: not driven here (it is driven by C01)"]
    ctx.binding_selftest(binary, cases[-1], corrupt, test_run=ba.TEST, env=ENV)
    res = ctx.replay_behaviours(binary, cases, critical=critical, wrap=lambda c: c, test_run=ba.TEST, env=ENV,
                                fingerprint=ba.fp_of("C07"), timeout=ctx.q(7000, 14000))
    ba.check_hangs(ctx, res)
    ctx.cov["hazard_behaviours_reproduced_on_real_code"] = sum(
        1 for c, r in zip(cases[:min(lim, len(hazards))], res)
        if any("persisted-root-reaches-missing-chunk" in str(s.get("fp")) for s in (r.get("soft") or [])))
